#!/bin/sh
# usage: tools/seed_pipeline.sh C13 [tier] [props]  -- intake + verify + detect for what a sub-agent left in /tmp/seed/<ID>/out
id="$1"; tier="${2:-quick}"; props="${3:-own}"
cd /verif
/venv/bin/python tools/seeded.py intake "$id" || exit 1
for d in seeded/$id-*; do
  [ -f "$d/patch.diff" ] || continue
  /venv/bin/python tools/seeded.py verify "$d" && /venv/bin/python tools/seeded.py detect "$d" --tier "$tier" --props "$props"
done

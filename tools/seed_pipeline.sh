#!/bin/sh
# usage: tools/seed_pipeline.sh C13 [tier] [props]  -- intake + verify + detect for what a sub-agent left in /tmp/seed/<ID>/out
id="$1"; tier="${2:-quick}"; props="${3:-own}"; round="${4:-1}"
cd /verif
if [ "$round" = 8 ]; then
  /venv/bin/python tools/seeded.py intake "$id" --out out8 --offset 14 || exit 1
  dirs="seeded/$id-15 seeded/$id-16"
elif [ "$round" = 7 ]; then
  /venv/bin/python tools/seeded.py intake "$id" --out out7 --offset 12 || exit 1
  dirs="seeded/$id-13 seeded/$id-14"
elif [ "$round" = 6 ]; then
  /venv/bin/python tools/seeded.py intake "$id" --out out6 --offset 10 || exit 1
  dirs="seeded/$id-11 seeded/$id-12"
elif [ "$round" = 5 ]; then
  /venv/bin/python tools/seeded.py intake "$id" --out out5 --offset 8 || exit 1
  dirs="seeded/$id-9 seeded/$id-10"
elif [ "$round" = 4 ]; then
  /venv/bin/python tools/seeded.py intake "$id" --out out4 --offset 6 || exit 1
  dirs="seeded/$id-7 seeded/$id-8"
elif [ "$round" = 3 ]; then
  /venv/bin/python tools/seeded.py intake "$id" --out out3 --offset 4 || exit 1
  dirs="seeded/$id-5 seeded/$id-6"
elif [ "$round" = 2 ]; then
  /venv/bin/python tools/seeded.py intake "$id" --out out2 --offset 2 || exit 1
  dirs="seeded/$id-3 seeded/$id-4"
else
  /venv/bin/python tools/seeded.py intake "$id" || exit 1
  dirs="seeded/$id-1 seeded/$id-2"
fi
for d in $dirs; do
  [ -f "$d/patch.diff" ] || continue
  /venv/bin/python tools/seeded.py verify "$d" && /venv/bin/python tools/seeded.py detect "$d" --tier "$tier" --props "$props"
done

#!/venv/bin/python
"""setup_cmd: nothing to build (pure Python, no third-party dependency).  Verifies
that the interpreter, sys.monitoring and the tree under test are usable."""
import os
import sys

HERE = os.path.dirname(os.path.dirname(os.path.abspath(__file__)))
sys.path.insert(0, HERE)
from vf import env

assert sys.version_info >= (3, 12), 'needs sys.monitoring (3.12+)'
assert hasattr(sys, 'monitoring')
env.bootstrap()
for d in ('evidence', 'replay', '.shards'):
    os.makedirs(os.path.join(HERE, d), exist_ok=True)
print('selfcheck ok: sigtools from', env.SIGDIR)

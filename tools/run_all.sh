#!/bin/sh
# usage: tools/run_all.sh <tier> [props...]   -- runs checks (3 at a time), prints verdict lines
tier="${1:-quick}"; shift
cd /verif
props="$*"
[ -z "$props" ] && props=$(/venv/bin/python -c "import json; print(' '.join(c['property_id'] for c in json.load(open('MANIFEST.json'))['checks']))")
mkdir -p /tmp/vf-runall
for p in $props; do
  ( /venv/bin/python check.py --property $p --tier $tier > /tmp/vf-runall/$p.log 2>&1; echo "$p exit=$? $(grep -E '^SUMMARY' /tmp/vf-runall/$p.log | cut -c1-160)"; grep -E '^(VIOLATION|INCONCLUSIVE)' /tmp/vf-runall/$p.log | cut -c1-300 ) &
  while [ $(jobs | grep -c Running) -ge 3 ]; do sleep 1; done
done
wait

#!/venv/bin/python
"""Regenerates MANIFEST.json from the property modules present in vf/props."""
import importlib
import json
import os
import sys

HERE = os.path.dirname(os.path.dirname(os.path.abspath(__file__)))
sys.path.insert(0, HERE)

PENDING_REASON = 'check under construction in this session (see DESIGN.md section 3); not claimed until it has run silently on the unchanged tree'

props = [json.loads(l) for l in open(os.path.join(HERE, 'properties.jsonl'))]
checks = []
na = []
for p in props:
    pid = p['id']
    path = os.path.join(HERE, 'vf', 'props', pid.lower() + '.py')
    if not os.path.exists(path):
        na.append({'property_id': pid, 'reason': PENDING_REASON})
        continue
    mod = importlib.import_module('vf.props.' + pid.lower())
    if getattr(mod, 'CLAIMED', True) is False:
        na.append({'property_id': pid, 'reason': getattr(mod, 'NOT_CLAIMED_REASON', PENDING_REASON)})
        continue
    checks.append({
        'property_id': pid,
        'quick_cmd': '/venv/bin/python check.py --property %s --tier quick' % pid,
        'thorough_cmd': '/venv/bin/python check.py --property %s --tier thorough' % pid,
        'evidence_file': 'evidence/%s.json' % pid,
        'replay_cmd_template': '/venv/bin/python check.py --property %s --replay {path}' % pid,
        'engine': 'vf',
        'level_claimed': {
            'category': mod.LEVEL,
            'text': getattr(mod, 'LEVEL_TEXT', None) or (
                'Held on the executions observed, nothing more: ' + mod.RULE),
            'design_ref': 'DESIGN.md section 3, ' + pid,
        },
        'level_note': '; '.join(mod.ASSUMPTIONS),
        'technique': getattr(mod, 'TECHNIQUE', 'runtime monitoring: post-condition monitors attached to the real functions, oracle = CPython argument binder on call shapes'),
    })

manifest = {
    'version': 1,
    'setup_cmd': '/venv/bin/python tools/selfcheck.py',
    'hooks': {
        'guard': 'SIGTOOLS_VERIF',
        'enable': 'no source hook is needed: monitors are attached from outside by rebinding module globals (vf/monitor.py); the guard name is reserved and unused',
        'baseline_off_cmd': 'cd /repo && /venv/bin/python -m pytest -ra -q -p no:cacheprovider --timeout=900 --continue-on-collection-errors',
        'source_commits': [],
        'add_only': True,
    },
    'engines': [{
        'name': 'vf',
        'path': 'vf/',
        'serves_properties': [c['property_id'] for c in checks],
        'kind_free_text': 'runtime monitors (pass-through wrappers on the real sigtools functions, boundary monitors at the client side, sys.monitoring failpoint injector and deterministic scheduler) fed by generated, corpus and stress workloads; check.py is the single entry point',
    }],
    'checks': checks,
    'notes': 'Verdicts are three-valued: exit 0 held on what was observed, exit 1 + VIOLATION lines, exit 2 + INCONCLUSIVE line (deciding monitor under its floor, wrong tree imported, shard crashed). Known findings: known_findings.json (read-only at run time). VERIF_REPO selects the tree (default /repo).',
    'not_applicable': na,
}
with open(os.path.join(HERE, 'MANIFEST.json'), 'w') as f:
    json.dump(manifest, f, indent=1)
print('checks:', [c['property_id'] for c in checks])
print('not claimed:', [n['property_id'] for n in na])

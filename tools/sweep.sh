#!/bin/sh
# usage: tools/sweep.sh <tier> "<seeds>" [props...]  -- sequential sweep (each check uses its own shards),
# prints one verdict line per (property, seed) plus VIOLATION/INCONCLUSIVE/KNOWN lines (truncated).
tier="${1:-quick}"; seeds="${2:-0}"; shift 2
props="$*"
here=$(cd "$(dirname "$0")/.." && pwd)
cd "$here"
[ -z "$props" ] && props=$(/venv/bin/python -c "import json; print(' '.join(c['property_id'] for c in json.load(open('MANIFEST.json'))['checks']))")
mkdir -p sweeplogs
for s in $seeds; do
 for p in $props; do
  VERIF_SEED=$s PYTHONHASHSEED=0 /venv/bin/python check.py --property $p --tier $tier > sweeplogs/$p.$tier.$s.log 2>&1
  echo "$p seed=$s exit=$? $(grep -E '^SUMMARY' sweeplogs/$p.$tier.$s.log | cut -c1-170)"
  grep -E '^(VIOLATION|INCONCLUSIVE|  \[)' sweeplogs/$p.$tier.$s.log | cut -c1-400
 done
done

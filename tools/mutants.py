#!/venv/bin/python
"""The written mutation catalogue of DESIGN section 2.9: realistic slips expressed as textual
replacements, applied to a scratch worktree of /repo (under /tmp, removed afterwards).

  tools/mutants.py list
  tools/mutants.py run [--only NAME,...] [--tier quick] [--jobs 3] [--props own|all]
      for each mutant: apply, run the pinned test-suite (a mutant the tests catch is reported as
      'killed-by-tests' and is not interesting), run the checks of the properties it is aimed at,
      record the outcome in mutants/results.json.

This is the harness that tests the checks, not a registered check."""
import argparse
import json
import os
import shutil
import sys
import tempfile
from concurrent.futures import ThreadPoolExecutor

HERE = os.path.dirname(os.path.dirname(os.path.abspath(__file__)))
sys.path.insert(0, os.path.join(HERE, 'tools'))
import seeded  # noqa: E402

S = 'sigtools/_signatures.py'
A = 'sigtools/_autoforwards.py'
SP = 'sigtools/specifiers.py'
_SP = 'sigtools/_specifiers.py'
M = 'sigtools/modifiers.py'
U = 'sigtools/_util.py'
W = 'sigtools/wrappers.py'
SU = 'sigtools/support.py'
SX = 'sigtools/sphinxext.py'

# (name, [properties aimed at], [(file, old, new), ...])
MUTANTS = [
    ('merge-keep-varargs-after-absorbing-positional', ['C01', 'C09'], [(S,
        "                _add_sources(self.src, existing.name, src)\n                self.varargs_src[o_index] = None\n",
        "                _add_sources(self.src, existing.name, src)\n")]),
    ('merge-unbalanced-pok-kwonly-in-varargs-branch', ['C01', 'C09'], [(S,
        "            self.posargs.append(existing.replace(kind=existing.POSITIONAL_ONLY))\n            _add_sources(self.src, existing.name, src)\n        elif existing.default == existing.empty:\n            raise ValueError('Unmatched regular",
        "            self.kwoargs[existing.name] = existing.replace(kind=existing.KEYWORD_ONLY)\n            _add_sources(self.src, existing.name, src)\n        elif existing.default == existing.empty:\n            raise ValueError('Unmatched regular")]),
    ('merge-unmatched-kwo-keeps-varkwargs', ['C01', 'C09'], [(S,
        "            _add_all_sources(self.src, unmatched_kwoargs.values(), from_src)\n            self.varkwargs_src[o_index] = None\n",
        "            _add_all_sources(self.src, unmatched_kwoargs.values(), from_src)\n")]),
    ('merge-optional-unmatched-pok-required-check-dropped', ['C09', 'C01', 'C15'], [(S,
        "        elif existing.default == existing.empty:\n            raise ValueError('Unmatched regular parameter: {0}'\n                             .format(existing))",
        "        elif existing.default == existing.empty and o_kwargs_limbo:\n            raise ValueError('Unmatched regular parameter: {0}'\n                             .format(existing))")]),
    ('embed-outer-defaults-not-cleared', ['C02', 'C10', 'C15'], [(S,
        "        if i_posargs[0].default is i_posargs[0].empty:\n            e_posargs = list(_clear_defaults(e_posargs))",
        "        if i_posargs[0].default is i_posargs[0].empty:\n            pass")]),
    ('embed-duplicate-check-skipped-for-inner-kwo', ['C02', 'C15'], [(S,
        "    _check_no_dupes(names, i_kwoargs.values())\n", "")]),
    ('embed-depth-not-increased', ['C08'], [(S,
        "        dict((f, v+depth) for f, v in i_src.get('+depths', {}).items()))",
        "        dict((f, v) for f, v in i_src.get('+depths', {}).items()))")]),
    ('embed-sources-overlay-order', ['C08'], [(S,
        "    src = dict(i_src, **o_own_src)", "    src = dict(o_own_src, **i_src)")]),
    ('mask-keeps-varargs-after-named-positional', ['C03', 'C19', 'C04'], [(S,
        "            if varargs:\n                src.pop(varargs.name, None)\n                varargs = None\n            for p in [param] + conv_kwoargs:",
        "            for p in [param] + conv_kwoargs:")]),
    ('mask-num-args-off-by-one-with-varargs', ['C03', 'C19'], [(S,
        "            consume -= 1\n            consumed_names.add(param.name)\n            if not consume:\n                break",
        "            consumed_names.add(param.name)\n            consume -= 1\n            if consume <= 0 or (varargs and consume == 1 and not pokargs):\n                break")]),
    ('mask-duplicate-name-not-rejected', ['C03', 'C15'], [(S,
        "        if kwarg_name in consumed_names:\n            raise ValueError('Duplicate argument: {0!r}'.format(kwarg_name))\n        elif",
        "        if kwarg_name in consumed_names and not varkwargs:\n            raise ValueError('Duplicate argument: {0!r}'.format(kwarg_name))\n        elif")]),
    ('mask-sources-shared-with-input', ['C16'], [(S,
        "        return SortedParameters(posargs, pokargs, varargs, kwoargs, varkwas,\n                                copy_sources(src))",
        "        return SortedParameters(posargs, pokargs, varargs, kwoargs, varkwas,\n                                dict(src))")]),
    ('forwards-hide-flags-swapped', ['C04', 'C06'], [(S,
        "             hide_args=hide_args, hide_kwargs=hide_kwargs,\n             hide_varargs=False, hide_varkwargs=False,",
        "             hide_args=hide_kwargs, hide_kwargs=hide_args,\n             hide_varargs=False, hide_varkwargs=False,")]),
    ('forwards-partial-keeps-required', ['C04', 'C19'], [(S,
        "                params.append(param.replace(default=None))",
        "                params.append(param if param.kind == param.KEYWORD_ONLY else param.replace(default=None))")]),
    ('merge-depths-keeps-larger', ['C08'], [(S,
        "        if func in ret and depth > ret[func]:", "        if func in ret and depth < ret[func]:")]),
    ('concile-default-none-vs-left', ['C10'], [(S,
        "                default = None\n        annotation = left.empty", "                default = left.default\n        annotation = left.empty")]),
    ('concile-annotation-from-right', ['C10', 'C11'], [(S,
        "        elif left.annotation != left.empty:\n            annotation = left.annotation\n            upgraded_annotation = left.upgraded_annotation\n        elif right",
        "        elif left.annotation != left.empty:\n            annotation = left.annotation\n            upgraded_annotation = right.upgraded_annotation\n        elif right")]),
    ('concile-annotation-disagreement-keeps-left', ['C10'], [(S,
        "            if left.annotation == right.annotation:\n                annotation = left.annotation\n                upgraded_annotation = left.upgraded_annotation\n        elif left.annotation",
        "            if True:\n                annotation = left.annotation\n                upgraded_annotation = left.upgraded_annotation\n        elif left.annotation")]),
    ('replace-drops-upgraded-return-annotation', ['C14', 'C11'], [(S,
        "        ret.sources = sources\n        ret.upgraded_return_annotation = upgraded_return_annotation\n        return ret",
        "        ret.sources = sources\n        ret.upgraded_return_annotation = EmptyAnnotation if args or 'return_annotation' in kwargs else upgraded_return_annotation\n        return ret")]),
    ('param-replace-drops-sources', ['C14', 'C08'], [(S,
        "        ret._function = function\n        ret.sources = sources\n", "        ret._function = function\n        ret.sources = [] if kwargs.get('kind') is not None else sources\n")]),
    ('sig-eq-ignores-plain', ['C14'], [(S,
        "        if ret is not True or not isinstance(other, UpgradedSignature):\n            return ret\n        return self.upgraded_return_annotation == other.upgraded_return_annotation",
        "        if not isinstance(other, UpgradedSignature):\n            return NotImplemented if ret is True else ret\n        if ret is not True:\n            return ret\n        return self.upgraded_return_annotation == other.upgraded_return_annotation")]),
    ('partial-keyword-default-not-applied-kwo', ['C19', 'C10'], [(S,
        "                kwoargs[kwarg_name] = param.replace(\n                    kind=param.KEYWORD_ONLY, default=named_args[kwarg_name])\n            else:",
        "                kwoargs[kwarg_name] = param.replace(\n                    kind=param.KEYWORD_ONLY)\n            else:")]),
    ('partial-depth-zero-missing', ['C19', 'C08'], [(S,
        "        src = copy_sources(src, increase=True)\n        src['+depths'][partial_obj] = 0",
        "        src = copy_sources(src, increase=True)\n        src['+depths'].setdefault(partial_obj, 1)")]),
    ('visitor-starargs-use-hide-swapped', ['C05', 'C06'], [(A,
        "            if found == original:\n                return True, False\n            return False, True",
        "            if found == original:\n                return True, False\n            return True, True")]),
    ('visitor-name-del-ignored', ['C05', 'C06'], [(A,
        "        if not (immutable and isinstance(node.ctx, ast.Load)):",
        "        if not (immutable and isinstance(node.ctx, ast.Load)) and not isinstance(node.ctx, ast.Del):")]),
    ('visitor-nested-calls-not-deferred', ['C05', 'C06'], [(A,
        "        if self.namespace.parent is None or self.revisiting:\n            self.process_Call(node)\n        else:\n            self.to_revisit.append((node, self.namespace))",
        "        self.process_Call(node)")]),
    ('visitor-kwargs-immutable-too', ['C05', 'C06'], [(A,
        "            varkwargs = self.namespace[name] = Arg(name)\n        if main:",
        "            varkwargs = self.namespace[name] = Arg(name)\n            self.namespace.set_immutable_value(name)\n        if main:")]),
    ('partial-correction-dropped', ['C06', 'C19', 'C05'], [(A,
        "                len(fwdargs) - using_partial,", "                len(fwdargs),")]),
    ('forward-signatures-narrow-except', ['C15', 'C07', 'C05'], [(A,
        "            yield ausig\n        except ValueError:\n            raise UnknownForwards",
        "            yield ausig\n        except _signatures.IncompatibleSignatures:\n            raise UnknownForwards")]),
    ('autoforwards-merge-unguarded', ['C07', 'C15'], [(A,
        "        try:\n            return _signatures.merge(*sigs)\n        except ValueError:\n            raise UnknownForwards('Incompatible forwarding calls')",
        "        return _signatures.merge(*sigs)")]),
    ('cleanup-exit-restores-first-only', ['C16', 'C17', 'C07'], [(A,
        "        for attr, val in self.saved_attrs.items():\n            setattr(self.func, attr, val)",
        "        for attr, val in self.saved_attrs.items():\n            setattr(self.func, attr, val)\n            break")]),
    ('cleanup-enter-no-restore-on-failure', ['C16'], [(A,
        "        except BaseException:\n            self.__exit__()\n            raise", "        except BaseException:\n            raise")]),
    ('asforged-no-finally', ['C16', 'C13'], [(SP,
        "        try:\n            self.currently_computing.add(obj)\n            sig = signature(obj)\n        finally:\n            self.currently_computing.discard(obj)\n        return sig",
        "        self.currently_computing.add(obj)\n        sig = signature(obj)\n        self.currently_computing.discard(obj)\n        return sig")]),
    ('asforged-global-set-again', ['C17'], [(SP,
        "        try:\n            return self._local.currently_computing\n        except AttributeError:\n            ret = self._local.currently_computing = set()\n            return ret",
        "        try:\n            return self._shared\n        except AttributeError:\n            ret = self._shared = set()\n            return ret")]),
    ('retrieval-catches-too-much', ['C07', 'C05'], [(_SP,
        "                _autoforwards.autoforwards(subject, args, kwargs)\n            )\n        except _autoforwards.UnknownForwards:\n            pass",
        "                _autoforwards.autoforwards(subject, args, kwargs)\n            )\n        except Exception:\n            pass")]),
    ('poktranslator-insert-off-by-one', ['C12', 'C18'], [(M,
        "                if pos < len(args):\n                    args.insert(pos, kwargs.pop(param.name))",
        "                if pos <= len(args):\n                    args.insert(pos, kwargs.pop(param.name))")]),
    ('poktranslator-default-not-inserted', ['C12', 'C18'], [(M,
        "            elif pos < len(args):\n                args.insert(pos, param.default)", "            elif pos < len(args) - 1:\n                args.insert(pos, param.default)")]),
    ('poktranslator-posoarg-by-name-allowed-with-kwargs', ['C12'], [(M,
        "        intersect = self.posoarg_names.intersection(kwargs)\n        if intersect:",
        "        intersect = self.posoarg_names.intersection(kwargs)\n        if intersect and len(intersect) == len(kwargs):")]),
    ('desc-cache-strong-dict', ['C18'], [(U,
        "        self.insts[func] = ref(ret)\n        return ret", "        self.insts[func] = ref(ret)\n        self._last = ret\n        return ret")]),
    ('desc-cache-keyed-by-underlying-function', ['C18', 'C12', 'C17'], [(U,
        "        try:\n            ret = self.insts[func]()\n        except KeyError:",
        "        try:\n            ret = self.insts[getattr(func, '__func__', func)]()\n        except KeyError:"),
        (U, "        self.insts[func] = ref(ret)\n        return ret",
         "        self.insts[getattr(func, '__func__', func)] = ref(ret)\n        self._keep = ret\n        return ret")]),
    ('simplewrapped-get-not-rebinding', ['C13'], [(W,
        "    def __get__(self, instance, owner):\n        return type(self)(\n            self.wrapper,\n            _util.safe_get(self.__wrapped__, instance, owner))",
        "    def __get__(self, instance, owner):\n        if instance is None:\n            return self\n        return type(self)(\n            self.wrapper,\n            _util.safe_get(self.__wrapped__, None, owner))")]),
    ('combination-stops-passing-extra-args', ['C13'], [(W,
        "        for function in self.functions:\n            arg = function(arg, *args, **kwargs)\n        return arg",
        "        for i, function in enumerate(self.functions):\n            arg = function(arg, *args, **kwargs) if i < 2 else function(arg, *args)\n        return arg")]),
    ('wrappers-enumeration-innermost-first', ['C13'], [(W,
        "        for wrapper in wrappers:\n            yield wrapper\n        obj = obj.__wrapped__",
        "        for wrapper in reversed(wrappers):\n            yield wrapper\n        obj = obj.__wrapped__")]),
    ('get-ast-accepts-any-statement', ['C07'], [(U,
        "    if not isinstance(node, (ast.FunctionDef, ast.AsyncFunctionDef)):\n        return None\n    return node",
        "    if not isinstance(node, (ast.FunctionDef, ast.AsyncFunctionDef, ast.Assign)):\n        return None\n    return node")]),
]


# mutants that turned out not to change any behaviour a property speaks about (kept for the record)
EQUIVALENT = {
    'embed-sources-overlay-order': 'the two maps never share a key (a name on both sides is rejected before, forwarded star names are popped): no difference in 10^6 embeds of U({a,b,c},2) squared',
    'merge-keep-varargs-after-absorbing-positional': 'only decides WHICH of the two *args survives (its name and whom it is credited to); both answers satisfy C08 (the credited callable declares a star parameter of that name) and no property speaks about the choice: 30672 of 10^6 merges differ, all in that respect only',
    'merge-unmatched-kwo-keeps-varkwargs': 'as above for **kwargs: 99432 of 10^6 merges differ, only in the name / credit of the surviving **kwargs',
    'sig-eq-ignores-plain': 'returning NotImplemented makes Python try the reflected plain Signature.__eq__, which gives the same answer',
    'retrieval-catches-too-much': 'swallowing every exception of discovery only makes retrieval fall back more often: C07 (totality) and C05 (plain signature is always admitted) are not violated',
    'poktranslator-insert-off-by-one': 'at pos == len(args) inserting positionally and leaving the value in kwargs bind the same parameter',
    'wrappers-enumeration-innermost-first': '_sigtools__wrappers is always a 1-tuple: reversing it changes nothing',
}


def make_patch(name, edits):
    tree = seeded.worktree()
    try:
        for path, old, new in edits:
            p = os.path.join(tree, path)
            s = open(p).read()
            if s.count(old) != 1:
                raise SystemExit('%s: pattern occurs %d times in %s' % (name, s.count(old), path))
            open(p, 'w').write(s.replace(old, new))
        rc, diff = seeded.sh(['git', '-C', tree, 'diff'])
        return diff
    finally:
        seeded.drop(tree)


def run_one(name, props, edits, a):
    out_root = os.path.join(HERE, 'mutants')
    os.makedirs(out_root, exist_ok=True)
    patch = os.path.join(out_root, name + '.diff')
    diff = make_patch(name, edits)
    with open(patch, 'w') as f:
        f.write(diff)
    tree = seeded.worktree(patch)
    out_dir = tree + '-out'
    os.makedirs(out_dir, exist_ok=True)
    try:
        rc, out = seeded.sh([seeded.PY, '-c', 'import sigtools, sigtools.specifiers, sigtools.wrappers, '
                             'sigtools.modifiers, sigtools.support'], cwd=tree,
                            env={'PYTHONPATH': tree})
        if rc:
            return name, dict(status='does-not-import', tail=out[-300:])
        base = set(json.load(open('/root/.vp/BASELINE.json'))['stable_pass'])
        passed, failed, tail = seeded.pytest_passed(tree)
        lost = sorted(base - passed)
        res = dict(aimed_at=props, pytest=tail, tests_lost=lost[:8])
        if lost:
            res['status'] = 'killed-by-tests'
            if not a.even_if_killed:
                return name, res
            res['killed_by_tests'] = True
        fx_ok, fx_tail = seeded.fixtures_ok(tree)
        res['unittest_fixture_modules'] = fx_tail
        plist = seeded.ALL if a.props == 'all' else props
        with ThreadPoolExecutor(max_workers=2) as ex:
            results = dict(ex.map(lambda p: seeded.run_check(tree, out_dir, p, a.tier, a.seed), plist))
        res['checks'] = results
        det = sorted(p for p, r in results.items() if r['exit'] == 1)
        res['detected_by'] = det
        if res.get('killed_by_tests'):
            res['status'] = 'killed-by-tests+' + ('detected' if det else 'missed')
            return name, res
        res['status'] = 'detected' if det else ('equivalent' if name in EQUIVALENT else 'SURVIVED')
        if name in EQUIVALENT:
            res['equivalent_because'] = EQUIVALENT[name]
        return name, res
    finally:
        seeded.drop(tree)
        shutil.rmtree(out_dir, ignore_errors=True)


def main():
    ap = argparse.ArgumentParser()
    ap.add_argument('cmd', choices=['list', 'run'])
    ap.add_argument('--only')
    ap.add_argument('--tier', default='quick')
    ap.add_argument('--props', default='own')
    ap.add_argument('--seed', type=int, default=0)
    ap.add_argument('--jobs', type=int, default=3)
    ap.add_argument('--even-if-killed', action='store_true',
                    help='run the checks also on mutants the pinned tests already catch')
    a = ap.parse_args()
    todo = [m for m in MUTANTS if not a.only or m[0] in a.only.split(',')]
    if a.cmd == 'list':
        for name, props, edits in todo:
            print(name, props)
        return 0
    path = os.path.join(HERE, 'mutants', 'results.json')
    os.makedirs(os.path.dirname(path), exist_ok=True)
    have = json.load(open(path)) if os.path.exists(path) else {}
    with ThreadPoolExecutor(max_workers=a.jobs) as ex:
        for name, res in ex.map(lambda m: run_one(m[0], m[1], m[2], a), todo):
            res['tier'] = a.tier
            have[name] = res
            print('%-55s %-16s %s' % (name, res['status'], ' '.join(res.get('detected_by', []))
                                      or res.get('tests_lost', '') or res.get('tail', '')), flush=True)
            with open(path, 'w') as f:
                json.dump(have, f, indent=1, sort_keys=True)
    return 0


if __name__ == '__main__':
    sys.exit(main())

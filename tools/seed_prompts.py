#!/usr/bin/env python3
"""Write /tmp/seed/<ID>/prompt<R>.txt for a further round of sub-agent changes: the round-3 brief with the list of
ideas already used (one line per change kept under seeded/, retired ones included) and the output directory replaced.
usage: tools/seed_prompts.py <round>"""
import glob, json, os, re, sys
HERE = os.path.dirname(os.path.dirname(os.path.abspath(__file__)))
rnd = int(sys.argv[1])
for pid in ['C%02d' % i for i in range(1, 21)]:
    base = open('/tmp/seed/%s/prompt3.txt' % pid).read()
    head, rest = base.split('These ideas were ALREADY USED', 1)
    tail = rest.split('Prefer changes that are hardest to notice', 1)[1]
    used = []
    for d in sorted(glob.glob(os.path.join(HERE, 'seeded', pid + '-*')) + glob.glob(os.path.join(HERE, 'seeded', 'retired', pid + '-*'))):
        try:
            used.append('- ' + json.load(open(os.path.join(d, 'meta.json')))['summary'][:330].replace('\n', ' '))
        except Exception:
            pass
    text = (head + 'These ideas were ALREADY USED by others for this property; do NOT reuse them or close variants of them (a different code '
            'site AND a different mechanism is wanted):\n' + '\n'.join(used) + '\nPrefer changes that are hardest to notice' + tail)
    text = text.replace('/out3/', '/out%d/' % rnd)
    os.makedirs('/tmp/seed/%s/out%d' % (pid, rnd), exist_ok=True)
    open('/tmp/seed/%s/prompt%d.txt' % (pid, rnd), 'w').write(text)
    print(pid, len(used), len(text))

#!/usr/bin/env python3
"""Fills the generated tables of DESIGN.md section 8 from mutants/results.json, seeded/*/ and sweeps/*.json."""
import json
import os
import re

HERE = os.path.dirname(os.path.dirname(os.path.abspath(__file__)))


def mutants_table():
    path = os.path.join(HERE, 'mutants', 'results.json')
    if not os.path.exists(path):
        return 'not run yet'
    res = json.load(open(path))
    rows = ['', '| mutant | aimed at | pinned tests | checks that fire (quick tier) |', '|---|---|---|---|']
    n = dict(detected=0, survived=0, equivalent=0, killed=0)
    for name in sorted(res):
        r = res[name]
        st = r.get('status', '?')
        killed = st.startswith('killed-by-tests')
        det = ' '.join(r.get('detected_by', []))
        if killed:
            n['killed'] += 1
            tests = 'fail (%d)' % len(r.get('tests_lost', [])) if r.get('tests_lost') else 'fail'
            fire = det or ('not run' if 'checks' not in r else '—')
        else:
            tests = 'pass'
            if st == 'detected':
                n['detected'] += 1
                fire = det
            elif st == 'equivalent':
                n['equivalent'] += 1
                fire = '— (equivalent: %s)' % r.get('equivalent_because', '')
            else:
                n['survived'] += 1
                fire = '**none**'
        rows.append('| %s | %s | %s | %s |' % (name, ' '.join(r.get('aimed_at', [])), tests, fire))
    head = ('%d mutants: %d are already caught by the pinned tests (not interesting, run anyway where marked), '
            '%d pass the tests and are caught by a check, %d pass the tests and turned out to be equivalent '
            '(no property speaks about the changed behaviour; reason given), %d survive.'
            % (len(res), n['killed'], n['detected'], n['equivalent'], n['survived']))
    return head + '\n' + '\n'.join(rows)


def matrix_table():
    root = os.path.join(HERE, 'seeded')
    rows = ['', '| change | breaks | what was changed (sub-agent\'s words, shortened) | needs | quick checks that fire |', '|---|---|---|---|---|']
    total = own = 0
    for name in sorted(os.listdir(root)):
        d = os.path.join(root, name)
        if not os.path.isfile(os.path.join(d, 'meta.json')):
            continue
        meta = json.load(open(os.path.join(d, 'meta.json')))
        det = json.load(open(os.path.join(d, 'detect.json'))) if os.path.exists(os.path.join(d, 'detect.json')) else {}
        q = {}
        for slot, res in det.items():
            if slot.startswith('quick') and isinstance(res, dict):
                for p_, r_ in res.items():
                    # the full-budget run of a check wins over a reduced-budget one
                    if p_ not in q or slot == 'quick':
                        q[p_] = r_
        fired = sorted(p for p, r in q.items() if r.get('exit') == 1)
        ownp = meta['property']
        total += 1
        if ownp in fired:
            own += 1
        fired = [ownp] * (ownp in fired) + [p for p in fired if p != ownp]
        ran = len(q)
        cell = ' '.join(('**%s**' % p if p == ownp else p) for p in fired) or '**none**'
        if ran < 20:
            cell += ' (of %d checks run)' % ran
        clean = lambda t: re.sub(r'\s+', ' ', str(t)).replace('|', '\\|')
        rows.append('| %s | %s | %s | %s | %s |' % (name, ownp, clean(meta.get('summary', ''))[:230],
                                                 clean(meta.get('needs', ''))[:200], cell))
    head = '%d changes; %d are caught by the quick check of the property they were written against.' % (total, own)
    return head + '\n' + '\n'.join(rows)


def sweeps():
    d = os.path.join(HERE, 'sweeps')
    if not os.path.isdir(d):
        return 'not recorded yet'
    out = []
    for f in sorted(os.listdir(d)):
        if f.endswith('.txt'):
            out.append('`sweeps/%s`:\n\n```\n%s```\n' % (f, open(os.path.join(d, f)).read()))
    return '\n'.join(out) or 'not recorded yet'


def findings(status):
    k = json.load(open(os.path.join(HERE, 'known_findings.json')))['findings']
    clean = lambda t: re.sub(r'\s+', ' ', str(t)).replace('|', '\\|')
    if status == 'fixed':
        rows = ['', '| property | commit | what failed |', '|---|---|---|']
        rows += ['| %s | `%s` | %s |' % (f['property'], f['commit'], clean(f['what'])) for f in k if f['status'] == 'fixed']
    else:
        rows = ['', '| property | key | what fails, and why it is recorded rather than repaired |', '|---|---|---|']
        rows += ['| %s | `%s` | %s |' % (f['property'], f['key'], clean(f['what'])) for f in k if f['status'] == 'open']
    return '%d entries.\n' % (len(rows) - 3) + '\n'.join(rows)


def main():
    p = os.path.join(HERE, 'DESIGN.md')
    s = open(p).read()
    for key, fn in (('MUTANTS', mutants_table), ('MATRIX', matrix_table), ('SWEEPS', sweeps),
                    ('FIXED', lambda: findings('fixed')), ('OPEN', lambda: findings('open'))):
        a, b = '<!-- %s:BEGIN -->' % key, '<!-- %s:END -->' % key
        i, j = s.index(a) + len(a), s.index(b)
        s = s[:i] + '\n' + fn() + '\n' + s[j:]
    open(p, 'w').write(s)


if __name__ == '__main__':
    main()

#!/bin/sh
# usage: tools/seed_all.sh [tier] [props]   -- verify + detect every seeded change (3 at a time)
tier="${1:-quick}"; props="${2:-own}"; budget="${3:-}"; noverify="${4:-}"
cd /verif
for d in seeded/*/; do
  d=${d%/}
  [ -f "$d/patch.diff" ] || continue
  ( [ -z "$noverify" ] && /venv/bin/python tools/seeded.py verify "$d" 2>&1 | grep -v "^WARNING" | cut -c1-200
    /venv/bin/python tools/seeded.py detect "$d" --tier "$tier" --props "$props" --jobs 2 ${budget:+--budget $budget} 2>&1 | grep -v "^WARNING" | cut -c1-260 ) &
  while [ $(pgrep -fc "tools/seeded.py detect") -ge 3 ]; do sleep 2; done
done
wait

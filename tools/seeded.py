#!/venv/bin/python
"""Seeded-change bookkeeping: confirm a property-breaking change, and run the checks against it.

  tools/seeded.py verify <seeded/ID>            confirm the change the way the brief asks:
        unchanged tree: demo exits 0; changed tree: demo exits non-zero; changed tree: the pinned
        test-suite passes exactly like the unchanged one (294 passed).  Writes verify.json.
  tools/seeded.py detect <seeded/ID> [--tier quick] [--props C01,C07|own|all] [--seed N]
        apply patch.diff to a scratch worktree of /repo (under /tmp, removed afterwards) and run the
        registered checks against it (VERIF_REPO=<scratch>, VERIF_OUT=<scratch out dir>, so nothing
        in /verif/evidence is touched).  Writes detect.json: per property exit code + mechanisms.
  tools/seeded.py matrix                          table of all seeded changes x detecting checks

Nothing here is a registered check; it is the harness used to test the checks (DESIGN section 8).
"""
import argparse
import json
import os
import re
import shutil
import subprocess
import sys
import tempfile
import time
from concurrent.futures import ThreadPoolExecutor

HERE = os.path.dirname(os.path.dirname(os.path.abspath(__file__)))
PY = '/venv/bin/python'
ALL = ['C%02d' % i for i in range(1, 21)]


def sh(cmd, cwd=None, env=None, timeout=3600):
    e = dict(os.environ)
    e['PYTHONDONTWRITEBYTECODE'] = '1'
    if env:
        e.update(env)
    try:
        p = subprocess.run(cmd, cwd=cwd, env=e, stdout=subprocess.PIPE, stderr=subprocess.STDOUT,
                           timeout=timeout, text=True, errors='replace')
        return p.returncode, p.stdout
    except subprocess.TimeoutExpired as ex:
        return 124, (ex.stdout or '') + '\n[timeout]'


def worktree(patch=None):
    d = tempfile.mkdtemp(prefix='vf-seed-', dir='/tmp')
    os.rmdir(d)
    rc, out = sh(['git', '-C', '/repo', 'worktree', 'add', '-q', '--detach', d, 'HEAD'])
    if rc:
        raise SystemExit('worktree add failed: ' + out)
    if patch:
        rc, out = sh(['git', '-C', d, 'apply', '--whitespace=nowarn', patch])
        if rc:
            drop(d)
            raise SystemExit('patch does not apply: ' + out)
    return d


def drop(d):
    sh(['git', '-C', '/repo', 'worktree', 'remove', '--force', d])
    shutil.rmtree(d, ignore_errors=True)
    sh(['git', '-C', '/repo', 'worktree', 'prune'])


def pytest_passed(tree):
    xml = os.path.join(tree, '.vf-junit.xml')
    rc, out = sh([PY, '-m', 'pytest', '-q', '-p', 'no:cacheprovider', '--timeout=900',
                  '--continue-on-collection-errors', '--junitxml=' + xml], cwd=tree,
                 env={'PYTHONPATH': tree})
    import xml.etree.ElementTree as ET
    passed, failed = set(), set()
    try:
        for tc in ET.parse(xml).getroot().iter('testcase'):
            name = '%s::%s' % (tc.get('classname'), tc.get('name'))
            bad = [c.tag for c in tc if c.tag in ('failure', 'error')]
            if not tc.get('name') or tc.get('classname') in (None, ''):
                continue    # collection errors
            (failed if bad else passed).add(name)
    finally:
        if os.path.exists(xml):
            os.unlink(xml)
    tail = out.strip().splitlines()[-1] if out.strip() else ''
    return passed, failed, tail


def fixtures_ok(tree):
    rc, out = sh([PY, '-m', 'unittest', 'sigtools.tests.test_merge', 'sigtools.tests.test_embed',
                  'sigtools.tests.test_mask', 'sigtools.tests.test_forwards'], cwd=tree,
                 env={'PYTHONPATH': tree})
    return rc == 0, out.strip().splitlines()[-1] if out.strip() else ''


def cmd_verify(a):
    d = os.path.abspath(a.dir)
    patch = os.path.join(d, 'patch.diff')
    demo = os.path.join(d, [f for f in sorted(os.listdir(d)) if f.startswith('demo')][0])
    clean = worktree()
    bad = worktree(patch)
    try:
        res = {}
        rc0, out0 = sh([PY, demo], cwd=clean, env={'PYTHONPATH': clean}, timeout=600)
        rc1, out1 = sh([PY, demo], cwd=bad, env={'PYTHONPATH': bad}, timeout=600)
        res['demo_on_unchanged_exit'] = rc0
        res['demo_on_changed_exit'] = rc1
        res['demo_on_changed_tail'] = out1.strip().splitlines()[-3:]
        p0, f0, t0 = pytest_passed(clean)
        p1, f1, t1 = pytest_passed(bad)
        res['pytest_unchanged'] = t0
        res['pytest_changed'] = t1
        res['tests_lost'] = sorted(p0 - p1)
        res['tests_failed_changed'] = sorted(f1 - f0)
        base = set(json.load(open('/root/.vp/BASELINE.json'))['stable_pass']) \
            if os.path.exists('/root/.vp/BASELINE.json') else None
        if base is not None:
            res['baseline_294_all_pass_on_changed'] = base <= p1
        ok_fx0, tfx0 = fixtures_ok(clean)
        ok_fx1, tfx1 = fixtures_ok(bad)
        res['unittest_fixture_modules_unchanged'] = tfx0
        res['unittest_fixture_modules_changed'] = tfx1
        res['confirmed'] = (rc0 == 0 and rc1 != 0 and not res['tests_lost']
                            and not res['tests_failed_changed'])
        res['repo_head'] = sh(['git', '-C', '/repo', 'rev-parse', 'HEAD'])[1].strip()
        with open(os.path.join(d, 'verify.json'), 'w') as f:
            json.dump(res, f, indent=1)
        print(os.path.basename(d), 'confirmed' if res['confirmed'] else 'NOT CONFIRMED',
              json.dumps({k: res[k] for k in ('demo_on_unchanged_exit', 'demo_on_changed_exit',
                                              'pytest_changed', 'tests_lost',
                                              'unittest_fixture_modules_changed')}))
        if rc0 != 0:
            print(out0[-1500:])
        return 0 if res['confirmed'] else 1
    finally:
        drop(clean)
        drop(bad)


def run_check(tree, out_dir, prop, tier, seed, budget=None):
    t0 = time.time()
    e = {'VERIF_REPO': tree, 'VERIF_OUT': out_dir, 'VERIF_SEED': str(seed), 'PYTHONHASHSEED': '0'}
    if budget:
        e['VERIF_BUDGET'] = str(budget)
    rc, out = sh([PY, os.path.join(HERE, 'check.py'), '--property', prop, '--tier', tier],
                 cwd=HERE, env=e, timeout=7200)
    mechs = re.findall(r'^  \[([^\]]+?) x(\d+)\] (.*)$', out, flags=re.M)
    summ = re.search(r'^SUMMARY .*$', out, flags=re.M)
    inc = re.search(r'^INCONCLUSIVE .*$', out, flags=re.M)
    return prop, dict(exit=rc, tier=tier, seed=seed, wall_s=round(time.time() - t0, 1), budget_cpu_s=budget or 'default',
                      violation_lines=len(re.findall(r'^VIOLATION ', out, flags=re.M)),
                      mechanisms=[dict(mech=m, count=int(c), what=w[:300]) for m, c, w in mechs],
                      summary=summ.group(0) if summ else None,
                      inconclusive=inc.group(0)[:400] if inc else None)


def cmd_detect(a):
    d = os.path.abspath(a.dir)
    meta = json.load(open(os.path.join(d, 'meta.json')))
    own = meta['property']
    if a.props == 'own':
        props = [own]
    elif a.props == 'all':
        props = ALL
    elif a.props == 'related':
        # the properties anchored in a file the patch touches (+ the one it was written against)
        touched = set(re.findall(r'^\+\+\+ b/(\S+)', open(os.path.join(d, 'patch.diff')).read(), flags=re.M))
        props = [own]
        for line in open(os.path.join(HERE, 'properties.jsonl')):
            p = json.loads(line)
            if p['id'] != own and touched & set(p['anchors']['files']):
                props.append(p['id'])
    else:
        props = a.props.split(',')
    tree = worktree(os.path.join(d, 'patch.diff'))
    out_dir = tree + '-out'
    os.makedirs(out_dir, exist_ok=True)
    try:
        with ThreadPoolExecutor(max_workers=a.jobs) as ex:
            results = dict(ex.map(lambda p: run_check(tree, out_dir, p, a.tier, a.seed, a.budget), props))
    finally:
        drop(tree)
        shutil.rmtree(out_dir, ignore_errors=True)
    path = os.path.join(d, 'detect.json')
    have = json.load(open(path)) if os.path.exists(path) else {}
    slot = a.tier if not a.budget else '%s@%gs' % (a.tier, a.budget)
    have.setdefault(slot, {}).update(results)
    have['repo_head'] = sh(['git', '-C', '/repo', 'rev-parse', 'HEAD'])[1].strip()
    have['verif_head'] = sh(['git', '-C', HERE, 'rev-parse', 'HEAD'])[1].strip()
    with open(path, 'w') as f:
        json.dump(have, f, indent=1, sort_keys=True)
    for p in props:
        r = results[p]
        print('%s %s %s exit=%d %s %s' % (os.path.basename(d), p, a.tier, r['exit'],
                                          'DETECTED' if r['exit'] == 1 else
                                          ('inconclusive' if r['exit'] == 2 else 'missed'),
                                          '; '.join('%s x%d' % (m['mech'], m['count'])
                                                    for m in r['mechanisms'])[:300]))
    return 0


def cmd_matrix(a):
    root = os.path.join(HERE, 'seeded')
    rows = []
    for name in sorted(os.listdir(root)):
        d = os.path.join(root, name)
        if not os.path.isfile(os.path.join(d, 'meta.json')):
            continue
        meta = json.load(open(os.path.join(d, 'meta.json')))
        det = json.load(open(os.path.join(d, 'detect.json'))) if os.path.exists(
            os.path.join(d, 'detect.json')) else {}
        cell = {}
        for tier in ('quick', 'thorough'):
            for p, r in det.get(tier, {}).items():
                if r['exit'] == 1:
                    cell.setdefault(tier, []).append(p)
        rows.append((name, meta['property'], cell.get('quick', []), cell.get('thorough', []),
                     meta.get('summary', '')[:90]))
    for name, prop, q, t, s in rows:
        print('| %s | %s | %s | %s | %s |' % (name, prop, ' '.join(sorted(q)) or '—',
                                               ' '.join(sorted(t)) or '—', s))
    return 0


def cmd_intake(a):
    """copy what a sub-agent left in /tmp/seed/<ID>/out into seeded/<ID>-<i>/"""
    src = '/tmp/seed/%s/%s' % (a.id, a.out)
    made = []
    for i in (1, 2, 3):
        patch = os.path.join(src, 'patch%d.diff' % i)
        if not os.path.exists(patch):
            continue
        d = os.path.join(HERE, 'seeded', '%s-%d' % (a.id, i + a.offset))
        os.makedirs(d, exist_ok=True)
        shutil.copy(patch, os.path.join(d, 'patch.diff'))
        shutil.copy(os.path.join(src, 'demo%d.py' % i), os.path.join(d, 'demo.py'))
        try:
            meta = json.load(open(os.path.join(src, 'meta%d.json' % i)))
        except Exception as ex:
            meta = {'property': a.id, 'summary': 'meta unreadable: %r' % ex}
        meta['property'] = a.id
        meta['origin'] = 'independent sub-agent given only the property text and a scratch worktree' + (
            (' (round %d: also told, in one sentence each, which changes had already been made for this property, to get different ones)' % (a.offset // 2 + 1)) if a.offset else '')
        with open(os.path.join(d, 'meta.json'), 'w') as f:
            json.dump(meta, f, indent=1)
        made.append(d)
    print('\n'.join(made))
    return 0


def main():
    ap = argparse.ArgumentParser()
    sub = ap.add_subparsers(dest='cmd', required=True)
    v = sub.add_parser('verify')
    v.add_argument('dir')
    d = sub.add_parser('detect')
    d.add_argument('dir')
    d.add_argument('--tier', default='quick')
    d.add_argument('--props', default='own')
    d.add_argument('--seed', type=int, default=0)
    d.add_argument('--jobs', type=int, default=4)
    d.add_argument('--budget', type=float, help='CPU seconds per shard (VERIF_BUDGET) instead of the default budget')
    sub.add_parser('matrix')
    i = sub.add_parser('intake')
    i.add_argument('id')
    i.add_argument('--out', default='out')
    i.add_argument('--offset', type=int, default=0)
    a = ap.parse_args()
    return {'intake': cmd_intake, 'verify': cmd_verify, 'detect': cmd_detect, 'matrix': cmd_matrix}[a.cmd](a)


if __name__ == '__main__':
    sys.exit(main())

#!/bin/sh
# usage: tools/try_on.sh <git-rev-of-/repo | path-to-patch> <tier> <property>...
# Runs the given checks against a scratch copy of /repo (a worktree under /tmp
# that is removed afterwards); evidence files in /verif are restored afterwards.
set -u
what="$1"; tier="$2"; shift 2
dir=$(mktemp -d /tmp/vf-try-XXXXXX)
rmdir "$dir"
if [ -f "$what" ]; then
  git -C /repo worktree add -q --detach "$dir" HEAD || exit 3
  git -C "$dir" apply "$what" || { git -C /repo worktree remove --force "$dir"; exit 3; }
else
  git -C /repo worktree add -q --detach "$dir" "$what" || exit 3
fi
cd /verif
mkdir -p /tmp/vf-evidence-save && cp -a evidence/. /tmp/vf-evidence-save/ 2>/dev/null
for p in "$@"; do
  echo "=== $p on $what"
  VERIF_REPO="$dir" /venv/bin/python check.py --property "$p" --tier "$tier" 2>&1 | cut -c1-400 | grep -E "^(VIOLATION|KNOWN|SUMMARY|INCONCLUSIVE|  \[)" | head -12
done
cp -a /tmp/vf-evidence-save/. evidence/ 2>/dev/null; rm -rf /tmp/vf-evidence-save
git -C /repo worktree remove --force "$dir"
git -C /repo worktree prune

"""Helpers on live Signature objects shared by the monitors."""
import inspect

from . import sigs
from .sigs import PO, PK, VA, KO, VK, KIND_OF

EMPTY = inspect.Parameter.empty


def bparams(sig):
    """Binding-relevant parameter list (names, kinds, has-default)."""
    return sigs.of_signature(sig)


def safe_eq(a, b):
    if a is b:
        return True
    try:
        return bool(a == b)
    except Exception:
        return False


def meta(sig):
    """Full metadata per parameter: (name, kind, default, annotation) with live values."""
    return [(p.name, KIND_OF[p.kind], p.default, p.annotation) for p in sig.parameters.values()]


def meta_equal(m1, m2, ignore_star_names=False):
    if len(m1) != len(m2):
        return False
    for (n1, k1, d1, a1), (n2, k2, d2, a2) in zip(m1, m2):
        if k1 != k2:
            return False
        if n1 != n2 and not (ignore_star_names and k1 in (VA, VK)):
            return False
        if not safe_eq(d1, d2) or not safe_eq(a1, a2):
            return False
    return True


def kwo_sorted(m):
    """Metadata with the keyword-only parameters in name order: their order carries no meaning
    (inspect.Signature.__eq__ itself ignores it)."""
    ko = sorted((x for x in m if x[1] == KO), key=lambda x: x[0])
    out, it = [], iter(ko)
    for x in m:
        out.append(next(it) if x[1] == KO else x)
    return out


def show(sig):
    try:
        return str(sig)
    except Exception:
        return '(%s)' % ', '.join(str(n) for n in sig.parameters)


def show_params(params):
    return '(%s)' % sigs.render(params)


def is_bare_stars(bp):
    return [p[1] for p in bp] == [VA, VK]


def plain_copy(sig):
    """The same data as a plain inspect.Signature (downgraded)."""
    ps = [inspect.Parameter(p.name, p.kind, default=p.default, annotation=p.annotation)
          for p in sig.parameters.values()]
    return inspect.Signature(ps, return_annotation=sig.return_annotation)


def fname(f):
    import functools
    try:
        if isinstance(f, functools.partial):
            return 'partial(%s)' % fname(f.func)
        name = getattr(f, '__qualname__', None) or getattr(f, '__name__', None)
        if name:
            return name
        return '<%s object>' % type(f).__name__
    except Exception:
        return '<%s>' % type(f).__name__


def ident(f):
    """Identity of a callable for provenance comparison: bound methods are
    created afresh on every attribute access, so they are identified by
    (instance, function)."""
    import types
    if isinstance(f, types.MethodType):
        return ('method', id(f.__self__), id(f.__func__))
    return id(f)


def sources_view(sig):
    """JSON-friendly rendering of a sources map."""
    src = getattr(sig, 'sources', None)
    if not isinstance(src, dict):
        return repr(src)
    out = {}
    for k, v in src.items():
        if k == '+depths':
            try:
                out[k] = {fname(f): d for f, d in v.items()}
            except Exception:
                out[k] = repr(v)
        else:
            try:
                out[k] = [fname(f) for f in v]
            except Exception:
                out[k] = repr(v)
    return out


def src_as_sets(sig):
    """sources map as {name: frozenset(ids)} + depths {id: depth} (order/dups ignored).
    A plain inspect.Signature (the deprecated way of calling the algebra) has none."""
    src = getattr(sig, 'sources', None) or {}
    names = {k: frozenset(ident(f) for f in v) for k, v in src.items() if k != '+depths'}
    depths = {ident(f): d for f, d in src.get('+depths', {}).items()}
    return names, depths


def src_exact(sig):
    src = getattr(sig, 'sources', None) or {}
    names = {k: [id(f) for f in v] for k, v in src.items() if k != '+depths'}
    depths = {id(f): d for f, d in src.get('+depths', {}).items()}
    return names, depths


def deep_snapshot(sig):
    """Everything C16 promises not to change on an input signature."""
    params = tuple(sig.parameters.values())
    psnap = []
    for p in params:
        psnap.append((
            id(p), p.name, p.kind, id(p.default), id(p.annotation),
            id(getattr(p, 'sources', None)),
            tuple(id(f) for f in getattr(p, 'sources', ()) or ()),
            id(getattr(p, 'source_depths', None)),
            tuple(sorted((id(f), d) for f, d in (getattr(p, 'source_depths', None) or {}).items())),
            id(getattr(p, 'upgraded_annotation', None)),
            id(getattr(p, '_function', None)),
        ))
    src = getattr(sig, 'sources', None)
    ssnap = None
    if isinstance(src, dict):
        ssnap = (id(src), tuple(
            (k, id(v), tuple(id(f) for f in v) if k != '+depths'
             else tuple(sorted((id(f), d) for f, d in v.items())))
            for k, v in src.items()))
    return (tuple(psnap), ssnap, id(sig.return_annotation),
            id(getattr(sig, 'upgraded_return_annotation', None)))


def downgrade_args(point, args, kwargs):
    """The same call with every upgraded signature replaced by a plain one."""
    from sigtools import _signatures
    def dg(x):
        if isinstance(x, _signatures.UpgradedSignature):
            return plain_copy(x)
        return x
    return tuple(dg(a) for a in args), dict(kwargs)

"""Client workloads that reach the algebra through other public entry points, and
long-lived-object sessions.  They only *produce executions*: deciding is the job of
whatever monitors are enabled on the attach points."""
import random

from . import sigs, w_alg
from .sigs import PO, PK, VA, KO, VK


def _retrieve(obj):
    import sigtools
    try:
        return sigtools.signature(obj)
    except Exception:
        return None


def drive_merge_clients(ctx, tier):
    """merge as discovery and Combination use it: forwarding programs with 2-3 calls
    (retrieved, not executed) and Combination objects over generated functions."""
    from . import w_auto
    from sigtools import wrappers
    rnd = ctx.rng('merge-clients')
    n = {'quick': 300, 'thorough': 25000}[tier] // ctx.nshards
    for _ in range(n):
        if ctx.out_of_time('merge clients'):
            break
        src, meta = w_auto.gen_program(rnd.getrandbits(48), dict(ncalls=rnd.choice((2, 3))))
        try:
            g = w_auto.load(src)
        except Exception:
            continue
        ctx.count('driver.multi_call_programs')
        _retrieve(g['target'])
    pos_names = ['x', 'y']
    for _ in range(n // 2):
        if ctx.out_of_time('merge clients'):
            break
        fs = []
        for i in range(rnd.randint(2, 3)):
            ps = [('arg', PK, None, None)]
            npos = rnd.randint(0, 2)
            ndef = rnd.randint(0, npos)
            for j, nm in enumerate(pos_names[:npos]):
                ps.append((nm, PK, '1' if j >= npos - ndef else None, None))
            if rnd.random() < 0.6:
                ps.append(('args', VA, None, None))
            for nm in ('u', 'v'):
                if rnd.random() < 0.4:
                    ps.append((nm, KO, '1' if rnd.random() < 0.5 else None, None))
            if rnd.random() < 0.6:
                ps.append(('kwargs', VK, None, None))
            fs.append(sigs.make_func(tuple(ps), name='comb%d' % i))
        ctx.count('driver.combinations')
        _retrieve(wrappers.Combination(*fs))
    # signatures that stem from ONE function: of the function itself and of partial objects presetting some of its
    # keyword-passable parameters, merged in both orders and three at a time
    import functools
    from sigtools import signatures as S_
    kw_names = ['u', 'v', 'x', 'y']
    for _ in range(n // 2):
        if ctx.out_of_time('merge clients'):
            break
        ps = [('arg', PK, None, None)]
        for nm in ('x', 'y'):
            if rnd.random() < 0.6:
                ps.append((nm, PK, '1' if rnd.random() < 0.5 else None, None))
        ndef = False
        fixed = []
        for p_ in ps:           # defaults must form a suffix
            ndef = ndef or p_[2] is not None
            fixed.append((p_[0], p_[1], '1' if ndef else None, p_[3]))
        ps = fixed
        for nm in ('u', 'v'):
            if rnd.random() < 0.6:
                ps.append((nm, KO, '1' if rnd.random() < 0.5 else None, None))
        if rnd.random() < 0.5:
            ps.append(('kwargs', VK, None, None))
        f = sigs.make_func(tuple(ps), name='same_origin')
        names = [p_[0] for p_ in ps if p_[1] in (PK, KO) and p_[0] != 'arg']
        if not names:
            continue
        sigs_ = [S_.signature(f)]
        for _k in range(2):
            preset = rnd.sample(names, rnd.randint(1, len(names)))
            try:
                sigs_.append(S_.signature(functools.partial(f, **{nm: 10 for nm in preset})))
            except Exception:
                pass
        ctx.count('driver.same_origin_merges')
        rnd.shuffle(sigs_)
        w_alg.call(S_.merge, *sigs_[:2])
        w_alg.call(S_.merge, *sigs_[:2][::-1])
        if len(sigs_) >= 3:
            w_alg.call(S_.merge, *sigs_)


def drive_session(ctx, tier, n_cases=None):
    """A long session over a small set of *long-lived* signature objects: every operation of
    the algebra is applied again and again to the same objects, in seeded order, results
    included -- whatever an operation leaves behind on its inputs (a cache, a shared list, a
    filled-in map) is met by the operations that follow."""
    S = w_alg.sigapi()
    rnd = ctx.rng('session')
    pool = w_alg.SigPool()
    U = sigs.U(('a', 'b', 'c'), 2) + sigs.U(('x', 'y'), 2)
    n_cases = n_cases or {'quick': 80, 'thorough': 5000}[tier] // ctx.nshards or 1
    for _ in range(n_cases):
        if ctx.out_of_time('sessions'):
            break
        live = [pool.sig(rnd.choice(U), fresh=True) for _ in range(6)]
        ctx.count('driver.sessions')
        for step in range(60):
            op = rnd.choice(('mask', 'mask', 'merge', 'merge', 'embed', 'forwards', 'sort', 'replace'))
            a, b = rnd.choice(live), rnd.choice(live)
            try:
                if op == 'mask':
                    cand = [p.name for p in a.parameters.values()
                            if p.kind in (p.POSITIONAL_OR_KEYWORD, p.KEYWORD_ONLY)]
                    names = rnd.sample(cand, rnd.randint(0, min(2, len(cand))))
                    r = S.mask(a, rnd.randint(0, 2), *names)
                elif op == 'merge':
                    r = S.merge(a, b) if rnd.random() < 0.7 else S.merge(a, b, rnd.choice(live))
                elif op == 'embed':
                    r = S.embed(a, b, use_varargs=rnd.random() < 0.85, use_varkwargs=rnd.random() < 0.85)
                elif op == 'forwards':
                    r = S.forwards(a, b, rnd.randint(0, 1), partial=rnd.random() < 0.3)
                elif op == 'sort':
                    S.apply_params(a, *S.sort_params(a))
                    r = None
                elif rnd.random() < 0.5:
                    r = a.replace(sources=dict(a.sources))
                else:
                    # a signature derived by dropping the first parameter: replace() keeps the parent's provenance
                    # map (shared, now with a key that names no parameter of this signature)
                    ps = list(a.parameters.values())
                    r = a.replace(parameters=ps[1:]) if ps else None
                    if r is not None:
                        live[rnd.randrange(len(live))] = r
            except Exception:
                r = None        # outcomes, other exception types included, are the monitors' business
            ctx.count('driver.session_steps')
            if r is not None and rnd.random() < 0.25:
                live[rnd.randrange(len(live))] = r


def drive_retrieval_clients(ctx, tier):
    """Provenance as retrieval produces it: declared and discovered forwarding (programs of the
    W-AUTO grammar incl. chains through partial objects and methods)."""
    from . import w_auto
    rnd = ctx.rng('retrieval-clients')
    n = {'quick': 300, 'thorough': 25000}[tier] // ctx.nshards
    for _ in range(n):
        if ctx.out_of_time('retrieval clients'):
            break
        src, meta = w_auto.gen_program(rnd.getrandbits(48))
        try:
            g = w_auto.load(src)
        except Exception:
            continue
        ctx.count('driver.programs_retrieved')
        _retrieve(g['target'])
        for c in g.get('callee_objs', ()):
            _retrieve(c)
        # ... and through partial objects over them: binding nothing, a keyword nobody names, one positional
        import functools
        for o in (g['target'], g.get('raw_outer')):
            if o is None:
                continue
            _retrieve(functools.partial(o))
            if rnd.random() < 0.3:
                _retrieve(functools.partial(functools.partial(o)))
            if rnd.random() < 0.3:
                _retrieve(functools.partial(o, 0))


def _wraps_forwarder(fn):
    import functools

    @functools.wraps(fn)
    def wrapper(label_, *args, **kwargs):
        return fn(*args, **kwargs)
    return wrapper


def drive_modifiers(ctx, tier):
    """Provenance of sigtools.modifiers wrapper objects: single and stacked layers, annotate
    innermost or on top, the same raw function wrapped by two separate wrappers, bound copies,
    partial objects over wrappers, and the algebra applied to what they report; every object is
    retrieved again after the others were used."""
    import functools
    import itertools
    import sigtools
    from sigtools import modifiers, signatures as S
    rnd = ctx.rng('modifiers-provenance')
    U = [p for p in sigs.U(('a', 'b', 'c'), 3, stars=sigs.STARS2[:1]) if any(x[1] == PK for x in p)]
    n = {'quick': 250, 'thorough': 30000}[tier] // ctx.nshards
    count = itertools.count()

    def layer(obj, pk):
        deco = rnd.choice((lambda: modifiers.kwoargs(pk[-1]), lambda: modifiers.posoargs(end=pk[0]),
                           lambda: modifiers.autokwoargs, lambda: modifiers.kwoargs(start=pk[-1])))
        try:
            return deco()(obj)
        except ValueError:
            return obj

    def look(o):
        for retr in (S.signature, sigtools.signature):
            try:
                retr(o)
            except Exception:
                pass

    for _ in range(n):
        if ctx.out_of_time('modifier wrappers'):
            break
        p = rnd.choice(U)
        pk = [x[0] for x in p if x[1] == PK]
        f = sigs.make_func(p, name='modf%d' % next(count))
        ctx.count('driver.modifier_objects')
        if rnd.random() < 0.4:
            f = modifiers.annotate(**{pk[0]: 5})(f)         # a stored signature on the raw function itself
        # a forwarding functools.wraps wrapper around it (update_wrapper copies f.__dict__, a stored __signature__ included)
        look(_wraps_forwarder(f))
        objs = [layer(f, pk)]
        if rnd.random() < 0.5:
            objs.append(layer(objs[0], pk))                  # stacked
        if rnd.random() < 0.5:
            objs.append(layer(f, pk))                        # a second, separate wrapper of the same function
        if rnd.random() < 0.3 and objs[-1] is not f:
            try:
                modifiers.annotate(**{pk[-1]: 6})(objs[-1])  # annotate on top
            except ValueError:
                pass
        for o in objs:
            look(o)
        for o in objs:
            cap = sigs.positional_capacity(p)
            try:
                S.signature(functools.partial(o, *([0] * rnd.randint(0, min(cap, 2)))))
            except Exception:
                pass
            if rnd.random() < 0.5:
                try:
                    S.signature(functools.partial(o, **{pk[-1]: 1}))
                except Exception:
                    pass
        sigs_ = []
        for o in objs + [f]:
            try:
                sigs_.append(S.signature(o))
            except Exception:
                pass
        if len(sigs_) >= 2:
            w_alg.call(S.merge, sigs_[0], sigs_[1])
            w_alg.call(S.forwards, sigs_[0], sigs_[-1])
            w_alg.call(S.mask, sigs_[0], 1)
        for o in objs + [f]:
            look(o)                                          # ... and everything once more, afterwards

"""Small client workloads that reach the algebra through other public entry points."""


def drive_merge_clients(ctx, tier):
    pass


def drive_retrieval_clients(ctx, tier):
    pass

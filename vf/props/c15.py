"""C15 -- the algebra fails only with ValueError and never yields malformed output."""
from .. import monitor, mon_alg, w_alg

LEVEL = 'exploration'
SHARDS = {'quick': 2, 'thorough': 16}
BUDGET = {'quick': 60, 'thorough': 600}
RULE = ('merge/embed/mask/forwards over pairs and triples of the universe including role-inconsistent ones, n up to len+2, '
        'foreign, duplicate and positional-only names, all flags; the monitor classifies the exception type, re-validates '
        'every result, and re-runs each call with downgraded (plain inspect.Signature) inputs under '
        'warnings.catch_warnings(record=True). Non-trivial: every evaluated call; distinct by (op, inputs, arguments).')
ASSUMPTIONS = ['role-consistent = every shared name has the same kind and positional index in all inputs']


def monitors(ctx):
    return [mon_alg.WellFormed(ctx)]


def run(ctx):
    monitor.enable(*monitors(ctx))
    for p in ('merge', 'embed', 'mask', 'forwards'):
        ctx.floor('C15.%s' % p, 300)
    ctx.floor('C15.raised', 100)
    ctx.floor('C15.downgraded_runs', 1000)
    import copy
    sub = {'quick': 12, 'thorough': 150}[ctx.tier]
    saved = ctx.deadline
    import time
    def slot(k):
        ctx.deadline = time.time() + sub
    slot(0); w_alg.drive_merge(ctx, ctx.tier)
    slot(1); w_alg.drive_embed(ctx, ctx.tier)
    slot(2); w_alg.drive_mask(ctx, ctx.tier, dup=True, include_posonly=True)
    slot(3); w_alg.drive_forwards(ctx, ctx.tier)
    ctx.deadline = saved


def replay(ctx, rec):
    monitor.enable(*monitors(ctx))
    w_alg.replay(ctx, rec)

"""C15 -- the algebra fails only with ValueError and never yields malformed output."""
from .. import monitor, mon_alg, w_alg

LEVEL = 'exploration'
SHARDS = {'quick': 2, 'thorough': 16}
BUDGET = {'quick': 60, 'thorough': 600}
RULE = ('(plain inputs: all at once, and one input at a time next to upgraded ones) merge/embed/mask/forwards over pairs and triples of the universe including role-inconsistent ones, n up to len+2, '
        'foreign, duplicate and positional-only names, all flags; the monitor classifies the exception type, re-validates '
        'every result, and re-runs each call with downgraded (plain inspect.Signature) inputs under '
        'warnings.catch_warnings(record=True); retrieval side: sigtools.signature over generated forwarding programs, a share of '
        'which cannot be declared (mask/embed/merge raise inside discovery): the outermost retrieval must return. '
        'Non-trivial: every evaluated call; distinct by (op, inputs, arguments).')
ASSUMPTIONS = ['role-consistent = every shared name has the same kind and positional index in all inputs']


def monitors(ctx):
    return [mon_alg.WellFormed(ctx), mon_alg.RetrievalFallback(ctx)]


def run(ctx):
    monitor.enable(*monitors(ctx))
    from .. import w_suite
    w_suite.maybe(ctx)      # thorough tier: the repository's own tests under this property's monitors
    from .. import w_misc
    w_misc.drive_session(ctx, ctx.tier)   # long-lived signature objects through many operations
    for p in ('merge', 'embed', 'mask', 'forwards'):
        ctx.floor('C15.%s' % p, 300)
    ctx.floor('C15.raised', 100)
    ctx.floor('C15.downgraded_runs', 1000)
    import copy
    sub = {'quick': 9, 'thorough': 150}[ctx.tier]
    saved = ctx.deadline
    import time
    def slot(k):
        ctx.deadline = ctx.clock() + sub
    slot(0); w_alg.drive_merge(ctx, ctx.tier)
    slot(1); w_alg.drive_embed(ctx, ctx.tier)
    slot(2); w_alg.drive_mask(ctx, ctx.tier, dup=True, include_posonly=True)
    slot(3); w_alg.drive_forwards(ctx, ctx.tier)
    # the same operations over annotated signatures, eager and postponed (PEP 563); a share of the postponed
    # annotations name things that do not exist at run time (TYPE_CHECKING-only imports): nothing in the algebra
    # needs their value, so nothing but ValueError may escape
    ctx.floor('C15.annotated_inputs', 300)
    sub_saved = sub
    sub = max(3, sub // 4)
    for future, anns in ((False, ('1', '2', '3')), (True, ('NotDefinedAtRunTime', 'AlsoMissing', '1'))):
        pool = w_alg.MetaPool(ctx.rng('c15-meta-%s' % future), anns=anns, future=future)
        slot(5); w_alg.drive_merge(ctx, 'quick', pool=pool)
        slot(6); w_alg.drive_embed(ctx, 'quick', pool=pool)
        slot(7); w_alg.drive_forwards(ctx, 'quick', pool=pool)
    sub = sub_saved
    # retrieval side: generated forwarding programs (a share of them written so that the
    # declaration of the call fails in mask or embed, or several calls do not merge)
    ctx.floor('C15.retrievals_with_algebra_failure_inside', 30)
    slot(4)
    from .. import w_auto
    w_auto.run(ctx, ('C15',), {'quick': 4000, 'thorough': 300000}[ctx.tier], label='forwarding programs')
    ctx.deadline = saved


def replay(ctx, rec):
    monitor.enable(*monitors(ctx))
    if rec.get('workload') == 'auto':
        from .. import w_auto
        return w_auto.replay(ctx, rec, ('C15',))
    w_alg.replay(ctx, rec)

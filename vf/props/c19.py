"""C19 -- functools.partial objects get the signature Python actually enforces."""
from .. import monitor, w_part

LEVEL = 'exploration'
SHARDS = {'quick': 2, 'thorough': 16}
BUDGET = {'quick': 60, 'thorough': 600}
TECHNIQUE = 'runtime monitoring at the client boundary: retrieve the signature of the partial object, then really call the partial object on every call shape and compare'
RULE = ('p = partial(f, *a, **k) for f in U({a,b,c},3) (quick: 500 seeded signatures; thorough: all 1972) x every count '
        '0..len+1 x every keyword set of size <= 2 (+ a foreign keyword when f has **kwargs) + nested partials; both '
        'signatures.signature(p) and sigtools.signature(p) are compared with the set of shapes on which really calling p '
        'raises no TypeError (non-colliding shapes), plus the structural clauses; partials of forwarding wrappers '
        '(callee bound positionally / by keyword) (half of them through a sigtools.modifiers wrapper object) are executed and compared with mask(forwards(outer, callee), 1). '
        'Every fourth partial object is an instance of a subclass that is falsy when only keywords are bound; forwarding partials also go over bound / inherited / class methods, over a callee that is only a keyword-only default (must not be resolved), and two levels deep (partial(outer, mid, inner_a, inner_b)). '
        'The callee may be reached through two attributes of the bound positional; a second partial object over the same function must not list the first nor change the first answer. '
        'Non-trivial: every retrieval that returned; distinct by (retrieval, function parameters, binding).')
ASSUMPTIONS = ['bound keywords naming a positional-only parameter are excluded (version-dependent, stated for C03)',
               'where inspect.signature itself refuses a partial object, a ValueError/TypeError from retrieval is accepted']


def run(ctx):
    ctx.floor('C19.retrievals', 2000)
    ctx.floor('C19.structural', 1000)
    ctx.floor('C19.forwarding_partials', 200)
    ctx.floor('C19.forwarding_vs_declared', 100)
    w_part.run(ctx)


def replay(ctx, rec):
    w_part.replay(ctx, rec)

"""C13 -- wrappers.decorator / wrapper_decorator / Combination are call-transparent."""
from .. import w_wrap

LEVEL = 'exploration'
SHARDS = {'quick': 2, 'thorough': 16}
BUDGET = {'quick': 60, 'thorough': 600}
TECHNIQUE = 'runtime monitoring at the client boundary: the object built by sigtools vs. the hand-written composition, called on every call shape with distinguishable values; reported signatures executed'
RULE = ('(also: wrapper_decorator(use_varargs=False) / (use_varkwargs=False) around wrapping functions that hand on only one of their star parameters, where that declaration can be honoured) '
        'seeded stacks of depth 1..3 of generated wrapping functions (own parameters positional or keyword-only, names disjoint '
        'from the decorated function, wrapper_decorator with and without a masked leading positional) over decorated functions '
        'of U({x,y,z},2) placed as function, method (first parameter named self or this; another instance touched first, instances comparing equal in half of the cases) and staticmethod, plain or dressed (modifiers.annotate, a stored __signature__, a modifiers wrapper object); Combination of 1..3 '
        'generated functions (flat and nested). Each object is called on every call shape and compared with the composition '
        '(return value or exception type); sigtools.signature == inspect.signature; accepted non-colliding shapes must not raise '
        'TypeError; wrappers.wrappers order; method binding removes exactly the first parameter (instance vs class access). '
        'Stacks also repeat one wrapping function on neighbouring levels, use functools.partial objects as wrapping callables, and are built level by level with every intermediate object inspected first. '
        'Decorated things are also callable objects (ordinary / static __call__); Combination members may raise (StopIteration, KeyError, ValueError). '
        'Non-trivial: every decorated object whose signature was retrieved; distinct by (function, stack, placement).')
ASSUMPTIONS = ['decorator and decorated function use disjoint parameter names (same names are the documented embed failure)',
               'Combination soundness is only demanded when the combined functions use names in consistent roles (stated)']


def run(ctx):
    ctx.floor('C13.stacks', 200)
    ctx.floor('C13.combinations', 60)
    ctx.floor('C13.calls_compared', 20000)
    ctx.floor('C13.binding_checked', 30)
    w_wrap.run(ctx)


def replay(ctx, rec):
    w_wrap.replay(ctx, rec)

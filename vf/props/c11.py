"""C11 -- postponed (PEP 563) annotations resolve in their defining context throughout."""
from .. import w_ann

LEVEL = 'exploration'
SHARDS = {'quick': 2, 'thorough': 16}
BUDGET = {'quick': 60, 'thorough': 600}
TECHNIQUE = 'runtime monitoring at the client boundary (metamorphic twins): every operation is executed on the same sources compiled eagerly and with the future flag, in per-function globals, and the evaluated postponed result is compared object-by-object with the eager one'
RULE = ('seeded cases: operation in {merge, 3-ary merge, embed, forwards, mask, partial retrieval, kwoargs/posoargs/autokwoargs, '
        'discovery (function and method form)} x annotations T/U on random subsets of parameters and on the return value x four '
        'globals configurations (shared; T/U swapped between the two functions; T and U aliases of one object; unrelated) x '
        'compiled eagerly and with from __future__ import annotations. source_value() of every retrieved input is compared with '
        'the object the spelling denotes in the defining globals; evaluated() of the postponed result with the eager result '
        '(identity of annotation objects); modifiers.annotate values (objects, strings, ints, tuples) come back verbatim, also '
        'under a stacked kwoargs, and for a modifiers-wrapped method through every view of it (class attribute, a method object kept from before annotate was applied, fresh ones, a partial over the kept one). Non-trivial: a case whose operation returned on both twins; distinct by (operation, globals, '
        'annotated parameter lists, arguments).')
ASSUMPTIONS = ['annotation objects are compared by identity', 'methods of one class necessarily share globals; the different-globals configurations apply to the function forms']


def run(ctx):
    ctx.floor('C11.cases', 1000)
    ctx.floor('C11.twins_compared', 500)
    ctx.floor('C11.source_values_checked', 2000)
    ctx.floor('C11.annotate_cases', 100)
    w_ann.run(ctx)


def replay(ctx, rec):
    w_ann.replay(ctx, rec)

"""C10 -- defaults, annotations and kinds of combined parameters follow the stated rules."""
import time
from .. import monitor, mon_meta, w_alg

LEVEL = 'exploration'
SHARDS = {'quick': 2, 'thorough': 16}
BUDGET = {'quick': 60, 'thorough': 600}
RULE = ("(also: the annotation of the result's *args / **kwargs when all inputs have one, whatever it is called on each side) "
        'merge/embed/mask/forwards/partial retrieval over the universe extended with default values and annotation values '
        'drawn per parameter from three-element pools (agreement and disagreement both frequent), coming from functions, classes, callable instances and plain inspect.Signature objects, and random expression '
        'trees; the monitor recomputes, for every result parameter, the input parameters it stands for (same name; for '
        'positional ones also the same index) and checks optionality, default, annotation, kind restriction, relative '
        'order, outer-before-inner and the dropped-default rule. Defaults include values every function owns an equal copy of (a large int, a tuple); a keyword bound by a partial keeps the annotation of the parameter it names. For inputs with as many named positional parameters as the result, a parameter may only be positional-only where some input requires it (kind restricted without need). Non-trivial: a merge parameter with >= 2 contributors, any '
        'embed result, a mask/partial that removed or rebound something; distinct by (operation, inputs with metadata).')
ASSUMPTIONS = ["'the input parameters it stands for' is only defined when shared names keep their role; for other merges only order is checked",
               'forwards is covered through the embed and mask calls it makes (both monitored)']


def monitors(ctx):
    return [mon_meta.MetaMonitor(ctx)]


def run(ctx):
    monitor.enable(*monitors(ctx))
    from .. import w_suite
    w_suite.maybe(ctx)      # thorough tier: the repository's own tests under this property's monitors
    from .. import w_misc
    w_misc.drive_session(ctx, ctx.tier)   # long-lived signature objects through many operations
    ctx.floor('C10.merge_consistent', 300)
    ctx.floor('C10.embed', 300)
    ctx.floor('C10.mask', 300)
    ctx.floor('C10.partial', 100)
    # (defaults: small ints -- one object per value in the whole process -- and values every function gets its own
    # equal copy of: a large int, a tuple)
    pool = w_alg.MetaPool(ctx.rng('meta'), defaults=('1', '2', '3', '1000', '(1, 2)'))
    saved = ctx.deadline
    sub = {'quick': 9, 'thorough': 100}[ctx.tier]
    for drv in (lambda c, t: w_alg.drive_merge(c, t, want='aligned', pool=pool),
                lambda c, t: w_alg.drive_merge(c, t, pool=pool),
                lambda c, t: w_alg.drive_embed(c, t, pool=pool),
                lambda c, t: w_alg.drive_forwards(c, t, pool=pool),
                lambda c, t: w_alg.drive_composite(c, t, pool=pool),
                lambda c, t: w_alg.drive_partial_retrieval(c, t, meta=pool)):
        ctx.deadline = ctx.clock() + sub
        drv(ctx, ctx.tier)
    ctx.deadline = ctx.clock() + sub
    w_alg.drive_mask(ctx, 'quick', pool=pool)
    ctx.deadline = saved
    # exhaustive sub-spaces announced by the drivers were cut by the sub-budgets
    ctx.exhaustive.clear()


def replay(ctx, rec):
    monitor.enable(*monitors(ctx))
    w_alg.replay(ctx, rec)

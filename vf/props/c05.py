"""C05 -- automatic discovery never reports a signature the function cannot honour."""
from .. import w_auto

LEVEL = 'exploration'
SHARDS = {'quick': 2, 'thorough': 16}
BUDGET = {'quick': 70, 'thorough': 600}
TECHNIQUE = 'runtime monitoring at the client boundary: generated forwarding programs are retrieved with sigtools.signature and then really executed on every call shape the reported signature accepts; taint clause decided from the generator ground truth'
RULE = ('(also: forwarding functions with up to three named parameters of their own, drawn by kind profile; an earlier same-named definition in the same file that was already inspected) '
        'seeded programs of the forwarding grammar (outer in U({a,b},2) with a star parameter; 1-3 forwarding calls to callees of '
        'U({x,y,z},3) with 0-2 leading positionals, own/none/foreign/doubled star arguments and explicit keywords; 29 statement '
        'contexts incl. calls nested in a scope and inside another call; 8 callee resolution routes; 7% of the calls written so that they cannot be declared; taint statements from two tables (23 for *args, 26 for **kwargs) placed before/between/'
        'after the calls; decoys) + every taint construct x {before, after} x {top-level, nested, comprehension}. Each untainted '
        'program whose signature was refined is executed on all non-colliding shapes disjoint from the explicitly passed names; '
        'each definitely tainted program must keep its own star parameter and advertise none of the callee parameters of that kind. '
        'Grammar additions: wrappers that are callable instances or classmethods, callees wrapped by lru_cache / functools.wraps or kept in a local variable, calls and rebindings inside except handlers (with and without a name), nonlocal chains, a module global named like the parameter that holds the callee, callees of up to four parameters. '
        'Non-trivial: a program whose discovered signature differs from the plain one; distinct by (route, signatures, calls, taints).')
ASSUMPTIONS = ['programs passing foreign or doubled star arguments are executed only when one fixed foreign value satisfies the callee for all calls',
               'read-only uses of **kwargs, method calls on *args, comprehension targets of the same name and taints that follow a call placed in a nested scope are not classified by the statement: either outcome is accepted',
               'wrappers that only build a functools.partial object are not executed here (C04 executes their all-optional twin)']


def run(ctx):
    ctx.floor('auto.programs', 500)
    ctx.floor('C05.executed', 200)
    ctx.floor('C05.taint_clause_checked', 30)
    w_auto.run_targeted_taints(ctx, ('C05',))
    w_auto.run(ctx, ('C05',), {'quick': 7000, 'thorough': 1500000}[ctx.tier])


def replay(ctx, rec):
    w_auto.replay(ctx, rec, ('C05',))

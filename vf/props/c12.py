"""C12 -- kwoargs/posoargs/autokwoargs: advertised signature equals call behaviour."""
from .. import w_mod

LEVEL = 'exploration'
SHARDS = {'quick': 2, 'thorough': 16}
BUDGET = {'quick': 60, 'thorough': 600}
TECHNIQUE = 'runtime monitoring at the client boundary: decorated callable vs. a native def with the expected advertised parameter list, compared on signature and on every call shape with distinguishable argument values'
RULE = ("(also: functools.wraps copies the metadata of another decorated callable onto the decorated one; every call shape is repeated with None / 0 / '' passed by keyword) "
        'functions from U({a,b,c},3) (quick: 200 seeded; thorough: all 1972) + 4-parameter samples, with defaults 10*i and '
        'annotations, as plain functions and as methods; every subset of positional-or-keyword names for kwoargs and posoargs, '
        'start=/end= at every name, autokwoargs with exception subsets, inadmissible selections (unknown, star, wrong kind, both '
        'kinds, positional-only after a regular parameter); each admissible decoration is compared with the native reference '
        'on sigtools.signature, inspect.signature and on all call shapes (0..capacity+2 positionals x all keyword subsets incl. '
        'a foreign one); 30% of the admissible decorations are repeated with decorator objects that were already applied to another function. Every third class of the method forms makes falsy instances; a quarter of the decorated functions forward their star parameters to a callable with regular parameters of its own (their sigtools.signature is then not compared: discovery adds to it). After a second layer was stacked on a decorated callable, the inner callable is compared with itself before (signature, behaviour). Several differently decorated attributes over one function (one stacked on another in a subclass) are looked up in seeded orders; modifiers are also applied to bound callables. Non-trivial: every decoration; distinct by (function, decorators, placement).')
ASSUMPTIONS = ['calls passing a positional-only name by keyword alongside **kwargs are excluded (stated)',
               'converted keyword-only parameters are expected after *args and after the native keyword-only ones, relative order kept']


def run(ctx):
    ctx.floor('C12.decorations', 1000)
    ctx.floor('C12.calls_compared', 20000)
    ctx.floor('C12.inadmissible_rejected', 100)
    w_mod.run_c12(ctx)


def replay(ctx, rec):
    w_mod.replay(ctx, rec, 'C12')

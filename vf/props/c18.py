"""C18 -- decorator application order and repeated use do not change the result."""
import time
from .. import w_hist

LEVEL = 'exploration'
SHARDS = {'quick': 2, 'thorough': 16}
BUDGET = {'quick': 60, 'thorough': 600}
TECHNIQUE = 'runtime monitoring at the client boundary: every permutation of modifier steps compared on signatures and call behaviour; recorded histories of retrieve/bind/call/drop checked for answer stability, right self, and reclamation through weak references after gc.collect()'
RULE = ('(also: an object kind whose instances compare and hash equal; targeted histories with two instances alive, each bound and called after the other) '
        '(a) seeded step sets {posoargs, kwoargs (split or joint), autokwoargs, annotate} on functions of U({a,b,c},3): every '
        'permutation is applied, admissible orders must agree on sigtools.signature, inspect.signature and behaviour on all '
        'call shapes and match the native reference, and every order admissible on the function is applied to a method and looked up through an instance (same signature, same acceptance); (b) histories over {retrieve, inspect-retrieve, bind+keep, call, drop '
        'instance + gc.collect(), class access, subclass instance, fresh instance, re-annotate, a retrieval that fails through an injected fault} on 9 kinds of objects '
        '(modifier methods, forger wrappers, forwards_to_super, wrappers.decorator, wrapper_decorator): enumerated '
        'exhaustively up to length 3 (thorough: 5) over a 5 (6) letter alphabet, plus seeded random ones up to length 6 over '
        'the full 15-letter alphabet, plus 8 targeted histories around a re-decoration. Non-trivial: a step set with >= 2 admissible orders, or a completed history; distinct '
        'by (function, steps) resp. (kind, history).')
ASSUMPTIONS = ['reclamation is observed with weakref + gc.collect() after the history dropped every reference it held',
               're-decoration is modelled by applying annotate to the already decorated class attribute']


def run(ctx):
    ctx.floor('C18.step_sets', 100)
    ctx.floor('C18.admissible_orders', 200)
    ctx.floor('C18.histories', 300)
    ctx.floor('C18.reclamation_checks', 300)
    saved = ctx.deadline
    ctx.deadline = ctx.clock() + {'quick': 20, 'thorough': 250}[ctx.tier]
    w_hist.run_orders(ctx)
    ctx.deadline = saved
    w_hist.run_histories(ctx)
    # differently decorated attributes over one function, one stacked on another in a subclass, looked up in seeded orders
    from .. import w_mod
    w_mod.run_siblings(ctx, 'C18')
    if ctx.shard == 0:
        # "retrieving a signature repeatedly gives equal results": also when the repetition comes from a second
        # thread while the first retrieval of the same object is still in progress
        from .. import w_wrap
        w_wrap.check_while_another_thread_computes(ctx, prop='C18')


def replay(ctx, rec):
    if rec.get('workload') in ('mod-siblings', 'mod-bound'):
        from .. import w_mod
        return w_mod.replay(ctx, rec, prop='C18')
    if rec.get('workload') == 'wrap-threads':
        from .. import w_wrap
        return w_wrap.check_while_another_thread_computes(ctx, prop='C18')
    w_hist.replay(ctx, rec)

"""C08 -- parameter provenance is complete, truthful and depth-ordered."""
import time
from .. import monitor, mon_prov, w_alg

LEVEL = 'exploration'
SHARDS = {'quick': 2, 'thorough': 16}
BUDGET = {'quick': 70, 'thorough': 600}
RULE = ('forwards has a relation of its own (outer depths as they are, inner one deeper, inner sources kept); inner parameters may be spelled like the outer star parameters; a retrieved partial object is at depth 0. '
        'every signature returned by merge/embed/mask/forwards/signatures.signature/sigtools.signature in the workloads '
        '(algebra over the universe incl. inner star parameters named like the outer ones, random expression trees whose '
        'results feed further operations and which re-use leaf signatures (one callable reached at several depths), partial retrieval, declared and discovered forwarding, corpus) is checked: '
        "keys == parameters + '+depths', lists non-empty and duplicate-free, every callable has a depth and declares the "
        'name (own code or plain retrieval), depths >= 0 with a 0; relational rules for merge (min depth, union of sources on '
        'consistently named inputs), embed (depth + chain position, single-declarer sources), mask (unchanged), partial '
        '(+1, partial at 0). Non-trivial: a result with more than one callable in a list or in the depth map; distinct by '
        '(operation, result parameters, list sizes, depth multiset).')
ASSUMPTIONS = ["'declares' accepts the callable's own parameter names or those plain retrieval (which follows __wrapped__) reports; callables for which neither is available are counted as unchecked",
               'algebra results are only checked when every input carries a complete provenance map itself']


def monitors(ctx):
    return [mon_prov.Provenance(ctx)]


def run(ctx):
    monitor.enable(*monitors(ctx))
    from .. import w_suite
    w_suite.maybe(ctx)      # thorough tier: the repository's own tests under this property's monitors
    from .. import w_misc
    w_misc.drive_session(ctx, ctx.tier)   # long-lived signature objects through many operations
    ctx.floor('C08.merge', 300)
    ctx.floor('C08.embed', 300)
    ctx.floor('C08.mask', 300)
    ctx.floor('C08.declares_checked', 1000)
    saved = ctx.deadline
    sub = {'quick': 11, 'thorough': 100}[ctx.tier]
    # every driver twice: bare parameter lists, and parameter lists with defaults and annotations (eager and
    # postponed; signatures of functions, classes, callable instances) -- metadata decides which of two paired
    # parameters the result is built from, and with it whose name the provenance entry is filed under
    mpool = w_alg.MetaPool(ctx.rng('meta'), anns=('1', '2'), p_ann=0.4)
    fpool = w_alg.MetaPool(ctx.rng('meta-future'), anns=('T', 'U'), p_ann=0.4, future=True, globs={'T': int, 'U': str})
    for drv, kw in ((w_alg.drive_composite, {}), (w_alg.drive_embed, {}), (w_alg.drive_merge, {}), (w_alg.drive_mask, {}),
                    (w_alg.drive_forwards, {}), (w_alg.drive_partial_retrieval, {}),
                    (w_alg.drive_merge, dict(pool=mpool)), (w_alg.drive_embed, dict(pool=fpool)),
                    (w_alg.drive_forwards, dict(pool=mpool)), (w_alg.drive_composite, dict(pool=fpool)),
                    (w_alg.drive_mask, dict(pool=mpool))):
        ctx.deadline = ctx.clock() + (sub if not kw else sub / 2.0)
        drv(ctx, ctx.tier, **kw)
    ctx.deadline = saved
    from .. import w_misc
    w_misc.drive_retrieval_clients(ctx, ctx.tier)
    ctx.floor('C08.rel_modifier', 100)
    w_misc.drive_modifiers(ctx, ctx.tier)


def replay(ctx, rec):
    monitor.enable(*monitors(ctx))
    w_alg.replay(ctx, rec)

"""C06 -- automatic discovery agrees with the equivalent explicit declaration."""
from .. import w_auto

LEVEL = 'exploration'
SHARDS = {'quick': 2, 'thorough': 16}
BUDGET = {'quick': 70, 'thorough': 600}
TECHNIQUE = 'runtime monitoring at the client boundary: signature discovered from source vs. the same forwarding declared through the public algebra (forwards per written call, merged), plus metamorphic re-emission of each program'
RULE = ('(also: forwarding functions with up to three named parameters of their own, drawn by kind profile; an earlier same-named definition in the same file that was already inspected) '
        'the same program space as C05 plus wrappers that are callable instances (the forwarding body is __call__; the class of such an instance must be reported with its plain signature: constructing it forwards nothing); for each program the expected value is computed from the generator ground truth with '
        'signatures.forwards / merge / mask only (parameters, defaults and provenance compared; several values are admitted where the '
        'statement does not classify a construct or fixes no merge order), and two semantically irrelevant variants (other statement '
        'contexts of the same deferral-depth class, decoys, unrelated statements, a wrapping-only decorator) must give the same signature and '
        'provenance. Non-trivial: a program whose discovered signature differs from the plain one; distinct as in C05.')
ASSUMPTIONS = ['the merge order over several forwarding calls is not fixed by the statement: any permutation is accepted',
               'for a callee bound through partial(outer, callee) the expected provenance is the declared one with every depth + 1 and the partial object at depth 0 (C19)']


def run(ctx):
    ctx.floor('auto.programs', 500)
    ctx.floor('C06.compared', 500)
    ctx.floor('C06.variants_compared', 500)
    ctx.floor('auto.discovery_changed_signature', 200)
    w_auto.run_targeted_taints(ctx, ('C06',))
    w_auto.run(ctx, ('C06',), {'quick': 5000, 'thorough': 1000000}[ctx.tier], variants=2)


def replay(ctx, rec):
    w_auto.replay(ctx, rec, ('C06',))

"""C04 -- declared forwarding (forwards_to_*): the reported signature is safe to call."""
import time
from .. import monitor, mon_alg, w_alg, w_decl

LEVEL = 'exploration'
SHARDS = {'quick': 2, 'thorough': 16}
BUDGET = {'quick': 70, 'thorough': 600}
TECHNIQUE = 'runtime monitoring: post-condition monitor on the real forwards() (== embed o mask via an independent route) plus a client-boundary monitor that really calls generated, declared wrappers on every call shape'
RULE = ('(also: declared chains decided by the INSTANCE -- one wrapper class nested in itself as delegating objects and as decorator objects, forwards_to_super / apply_forwards_to_super over a parent that forwards to a per-instance callable, several instances of one class inspected in seeded orders and twice each -- every call shape executed) '
        '(a) every forwards() call of the algebra drivers and of the declared wrappers is compared, in parameters and provenance, '
        'with embed(outer, mask(inner, ...)) computed through the original functions; (b) seeded wrappers whose body is generated '
        'from the declaration (n leading constants, own or foreign star arguments, explicit names, partial) are decorated with '
        'forwards_to_function (attribute / emulate=True / emulate=False), forwards_to_method (plain / emulate / dotted attribute), '
        'forwards_to_super (plain / emulate) and apply_forwards_to_super, retrieved bound (and through inspect when emulating) and '
        'really called on every call shape: accepted non-colliding shapes disjoint from the explicit names must not raise TypeError, '
        'rejected ones must (when no defaulted outer positional, hide_* or partial is involved). Callees have up to four named parameters (drawn by kind profile), num_args also ends strictly inside a positional-only group, names of any of the wrapper\'s own parameters may recur in the callee, instances may be falsy, one apply_forwards_to_super decorator object is also applied to base class and subclass in turn, dotted paths have up to three components. Non-trivial: a returned forwards() '
        'result, or a declared wrapper whose signature was retrieved; distinct by (signatures, declaration, form).')
ASSUMPTIONS = ['wrappers passing foreign *other/**other are executed only when one fixed foreign value can satisfy the callee for all calls (C03 promises only "for some choice of the hidden arguments")',
               'class-level access of a forwards_to_method/forwards_to_super method returns the plain signature in Python 3 (the forger needs __self__); it is compared only when it differs from the plain one']


def monitors(ctx):
    return [mon_alg.ForwardsEq(ctx)]


def run(ctx):
    monitor.enable(*monitors(ctx))
    from .. import w_suite
    w_suite.maybe(ctx)      # thorough tier: the repository's own tests under this property's monitors
    from .. import w_misc
    w_misc.drive_session(ctx, ctx.tier)   # long-lived signature objects through many operations
    ctx.floor('C04.forwards_calls', 1000)
    ctx.floor('C04.declared_wrappers', 500)
    ctx.floor('C04.executed', 300)
    ctx.floor('C04.chain_executed', 40)
    ctx.floor('C04.exactness_checked', 100)
    saved = ctx.deadline
    ctx.deadline = ctx.clock() + {'quick': 12, 'thorough': 150}[ctx.tier]
    w_alg.drive_forwards(ctx, ctx.tier)
    ctx.deadline = saved
    w_decl.run(ctx)


def replay(ctx, rec):
    monitor.enable(*monitors(ctx))
    if rec.get('workload') in ('decl', 'decl-chain'):
        w_decl.replay(ctx, rec)
    else:
        w_alg.replay(ctx, rec)

"""C01 -- merge: a call accepted by the merged signature is accepted by every input."""
from .. import monitor, mon_alg, w_alg

LEVEL = 'exploration'
SHARDS = {'quick': 2, 'thorough': 16}
BUDGET = {'quick': 60, 'thorough': 600}
RULE = ('(also: every agree/differ rename pattern over three and four positional-or-keyword parameters -- five to eight distinct names, which the universes cannot supply -- in both orders and three at a time) '
        '(also: inputs that stem from ONE function -- its own signature and those of partial objects presetting keywords, in both orders -- and default values that compare equal to everything) merge() is driven over every ordered pair of U({a,b},1) (exhaustive; thorough: also every pair of '
        'U({a,b,c},2)) plus VERIF_SEED-seeded random pairs/triples/quadruples from U({a,b,c},3) and U({a,b,c,d},3), '
        'and through Combination objects and discovered multi-call wrappers; the monitor on the real merge compares '
        'acceptance tables built by really calling stub functions. A case is non-trivial when merge returned a '
        'signature different from at least one input; distinct = distinct tuples of input parameter lists.')
ASSUMPTIONS = ['acceptance is decided on call shapes (count of positionals, set of keyword names) by CPython 3.12 binder',
               'shape space: 0..max positional capacity+2 positionals x every subset of the names involved + one foreign name']


def monitors(ctx):
    return [mon_alg.MergeSound(ctx)]


def run(ctx):
    monitor.enable(*monitors(ctx))
    from .. import w_suite
    w_suite.maybe(ctx)      # thorough tier: the repository's own tests under this property's monitors
    from .. import w_misc, core
    ctx.floor('C01.merge_results', 500)
    ctx.floor('C01.merge_results_n3', 50)
    core.run_slices(ctx, [
        (6, lambda: w_alg.drive_merge(ctx, ctx.tier)),
        (1, lambda: w_alg.drive_merge_renames(ctx, ctx.tier)),
        # the same merges over parameters that carry defaults and annotations (conciliation of metadata must not
        # change which calls are accepted)
        (2, lambda: w_alg.drive_merge(ctx, 'quick', pool=w_alg.MetaPool(ctx.rng('c01-meta'), defaults=('1', '2', '3', 'ANYTHING', 'None'),
                                                                           globs={'ANYTHING': w_alg.ANYTHING}))),
        (2, lambda: w_misc.drive_session(ctx, ctx.tier)),     # long-lived signature objects through many operations
        (2, lambda: w_misc.drive_merge_clients(ctx, ctx.tier))])


def replay(ctx, rec):
    monitor.enable(*monitors(ctx))
    w_alg.replay(ctx, rec)

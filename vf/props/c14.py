"""C14 -- returned signatures are drop-in inspect.Signature objects."""
import inspect
import time
from .. import monitor, mon_dropin, w_alg

LEVEL = 'exploration'
SHARDS = {'quick': 2, 'thorough': 16}
BUDGET = {'quick': 60, 'thorough': 600}
RULE = ('(also: plain parameters whose defaults compare equal to, without being, the ones handed over just before: True for 1, 2.0 for 2) '
        'every UpgradedSignature returned by merge/embed/mask/forwards/signatures.signature/sigtools.signature during the '
        'algebra workloads over the extended universe (defaults, annotations, return annotations; eager and postponed), partial '
        'retrieval and discovery workloads is compared with a plain inspect.Signature twin built from the same data: str(), '
        'bind() and bind_partial() on every call shape, replace() contracts on the signature and each parameter (no override, joint overrides, every field alone incl. falsy values), and a '
        'comparison menagerie (None, 0, str, object(), plain twin, itself, upgraded copy, plain/upgraded objects differing in '
        'one field) for ==, !=, symmetry, reflexivity, hash consistency and hashability. Defaults include unhashable ones; nested functions with postponed annotations are retrieved while a name they close over is still unbound; an annotation whose source_value() raises anything but NameError is a violation. A plain inspect.Signature coming out of an operation is a violation; from_callable and generator-fed constructors are judged like retrievals; plain parameters handed to replace()/the constructor come back upgraded. Non-trivial: each structurally '
        'distinct signature (string form + provenance shape), checked once.')
ASSUMPTIONS = ['postponed annotations that cannot be evaluated are out of domain (== would propagate the NameError)']


def monitors(ctx):
    return [mon_dropin.DropIn(ctx)]


def run(ctx):
    monitor.enable(*monitors(ctx))
    from .. import w_suite
    w_suite.maybe(ctx)      # thorough tier: the repository's own tests under this property's monitors
    ctx.floor('C14.signatures', 500)
    ctx.floor('C14.binds_compared', 20000)
    ctx.floor('C14.comparisons', 5000)
    saved = ctx.deadline
    sub = {'quick': 6, 'thorough': 100}[ctx.tier]
    # (defaults include unhashable ones: hash() of such a signature raises TypeError, for the plain twin as well)
    pool = w_alg.MetaPool(ctx.rng('meta'), defaults=('1', '2', '3', '[]', '{}'), anns=('1', '2', "'x'"))
    fpool = w_alg.MetaPool(ctx.rng('meta-future'), anns=('T', 'U'), future=True, globs={'T': int, 'U': str})
    for drv in (lambda c, t: w_alg.drive_merge(c, t, pool=pool),
                lambda c, t: w_alg.drive_embed(c, t, pool=fpool),
                lambda c, t: w_alg.drive_forwards(c, t, pool=pool),
                lambda c, t: w_alg.drive_composite(c, t, pool=fpool),
                lambda c, t: w_alg.drive_partial_retrieval(c, t, meta=pool),
                lambda c, t: w_alg.drive_mask(c, 'quick', pool=pool)):
        ctx.deadline = ctx.clock() + sub
        drv(ctx, ctx.tier)
    ctx.deadline = saved
    ctx.exhaustive.clear()
    drive_closures(ctx)
    drive_constructors(ctx)
    from .. import w_misc
    w_misc.drive_retrieval_clients(ctx, ctx.tier)


CLOSURE_SRC = '''
from __future__ import annotations
def make(observe):
    def inner(a: T, b: U = 1, *args: T, **kwargs: U) -> T:
        return later(a)
    observe(inner)            # the cell of `later` is still empty here
    def later(x): return x
    observe(inner)
    def watched(f):
        observe(f)            # a decorator looking at the function it decorates: its own name is not bound yet
        return f
    @watched
    def rec(n: U, m: T = 0, *, k: U = None) -> U:
        return rec(n - 1, m, k=k) if n else later(n)
    observe(rec)
    return inner, rec
'''


def drive_closures(ctx):
    """Signatures of nested functions compiled with postponed annotations, retrieved while a name they close over
    is not bound yet (a recursive function inspected by its own decorator; a helper defined further down)."""
    import sigtools
    from sigtools import signatures
    from .. import sigs

    def observe(f):
        ctx.count('C14.closure_retrievals')
        for retr in (signatures.signature, sigtools.signature):
            retr(f)            # (the monitors on the attach points judge what comes back)
    for eager in (False, True):
        src = CLOSURE_SRC if not eager else CLOSURE_SRC.replace('from __future__ import annotations\n', '')
        g = sigs.compile_module(src.lstrip('\n'), globs={'T': int, 'U': str}, tag='vclosure')
        g['make'](observe)


def drive_constructors(ctx):
    """The constructors the upgraded type inherits from inspect.Signature (from_callable) and its own
    (parameters given as a generator, as plain objects): what comes back is judged like any other signature."""
    import warnings
    from sigtools import _signatures
    from .. import sigs
    S, P = _signatures.UpgradedSignature, _signatures.UpgradedParameter
    m = mon_dropin.DropIn(ctx)
    rnd = ctx.rng('constructors')
    pool = w_alg.MetaPool(rnd, anns=('1', '2', "'x'"))
    U = sigs.U(('a', 'b', 'c'), 3, stars=sigs.STARS2[:1])
    for i in range({'quick': 150, 'thorough': 5000}[ctx.tier] // max(1, ctx.nshards)):
        params = pool.decorate(rnd.choice(U))
        f = sigs.make_func(params, name='ctor%d' % i)
        with warnings.catch_warnings():
            warnings.simplefilter('ignore')
            for label, build in (('UpgradedSignature.from_callable(f)', lambda: S.from_callable(f)),
                                 ('UpgradedSignature(<generator of plain parameters>)',
                                  lambda: S(q for q in inspect.signature(f).parameters.values()))):
                ctx.count('C14.constructor_results')
                try:
                    r = build()
                except Exception as e:
                    m.V('constructor-raises-%s' % type(e).__name__, '%s raised %s' % (label, type(e).__name__), {'signature': str(inspect.signature(f))})
                    continue
                bare = [q.name for q in r.parameters.values() if not isinstance(q, P)]
                if not isinstance(r, S) or bare:
                    m.V('constructor-returns-plain-objects', '%s returned %s with bare parameters %s' % (label, type(r).__name__, bare),
                        {'signature': str(r)})
                else:
                    m.check(r, 'constructor')


def replay(ctx, rec):
    from sigtools import support
    m = mon_dropin.DropIn(ctx)
    text = rec.get('signature') or '()'
    m.check(support.s(text[1:text.rindex(')')]))

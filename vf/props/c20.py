"""C20 -- support helpers faithfully build and bind signatures."""
from .. import w_supp

LEVEL = 'exploration'
SHARDS = {'quick': 2, 'thorough': 16}
BUDGET = {'quick': 60, 'thorough': 600}
TECHNIQUE = 'runtime monitoring at the client boundary: helpers of sigtools.support compared with a native def of the same parameter list (signature round trips, and really calling it on every call shape with distinguishable values)'
RULE = ('parameter lists of U({a,b,c},3) (quick: 800 seeded; thorough: all 1972, six times) decorated with defaults 10*i, annotations '
        '(literals or names resolved in supplied globals) and a return annotation; s(text) in native, chevron, postponed and the 7 '
        'use_modifiers_* spellings, func_from_sig(sig), f(text) called on every shape (0..capacity+2 positionals x all keyword '
        'subsets incl. a foreign one), bind_callsig and sort_callsigs against really calling the native function, '
        'make_up_callsigs against the full prefix x subset product. Defaults and annotations include literals whose text contains commas, colons, equal signs, brackets and both kinds of quotes; positional call values include None and 0. Non-trivial: every signature; distinct by (parameters, return).')
ASSUMPTIONS = ['a keyword naming a positional-only parameter alongside **kwargs is excluded (stated)',
               'func_from_sig is exercised only where str(sig) is re-parsable Python (literal defaults/annotations)',
               'use_modifiers_* spellings compared up to the order of keyword-only parameters, signatures without positional-only parameters only (stated)']


def run(ctx):
    ctx.floor('C20.signatures', 100)
    ctx.floor('C20.roundtrips', 500)
    ctx.floor('C20.calls_compared', 5000)
    ctx.floor('C20.func_from_sig', 30)
    w_supp.run(ctx)


def replay(ctx, rec):
    w_supp.replay(ctx, rec)

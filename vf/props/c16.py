"""C16 -- retrieval and algebra do not modify what they inspect, even when they fail."""
import time
from .. import monitor, mon_alg, w_alg

LEVEL = 'fault_enumeration'
SHARDS = {'quick': 4, 'thorough': 16}
BUDGET = {'quick': 70, 'thorough': 600}
RULE = ('(a) algebra: deep before/after snapshot of every input of merge/embed/mask/forwards/sort_params/apply_params '
        '(parameter objects by identity, sources map, every list, depths) over the algebra workloads incl. raising calls, '
        'plus aliasing of result maps/lists with inputs; (b) retrieval under faults: for each scenario object the calls that '
        'cross from sigtools into outside code (scenarios: wraps chains, __signature__ attributes, every forwards_to_* form, modifiers, wrappers, partials, callable instances, an object whose __delattr__ is user code, ...) are numbered in a passive run, then the retrieval is re-run once per '
        '(crossing, exception class) with that crossing raising, and the attribute snapshot of every reachable object and the '
        'as_forged recursion guard are compared with the initial ones. Scenarios include partial objects (their bound positionals and keywords are part of the snapshot), classes carrying __signature__ = as_forged, lru_cache objects, and modifiers wrappers whose raw function was re-signed afterwards. Algebra drivers also run on parameter lists with metadata; merge and embed of a single signature are included. Non-trivial: an algebra call with inputs, or an '
        'injected run; distinct by (operation, inputs, outcome) resp. (scenario, crossing, exception class).')
ASSUMPTIONS = ['fault model = exceptions raised by calls from sigtools into code outside sigtools (stated); setattr/delattr and container primitives are not failpoints',
               'apply_params without a sources argument keeps the input map by design of replace() (C14) and is checked for input immutability only']


def monitors(ctx):
    return [mon_alg.Immutable(ctx)]


def run(ctx):
    monitor.enable(*monitors(ctx))
    from .. import w_suite
    w_suite.maybe(ctx)      # thorough tier: the repository's own tests under this property's monitors
    from .. import w_misc
    w_misc.drive_session(ctx, ctx.tier)   # long-lived signature objects through many operations
    ctx.floor('C16.merge', 300)
    ctx.floor('C16.after_raise', 100)
    ctx.floor('C16.aliasing_checked', 500)
    saved = ctx.deadline
    sub = {'quick': 4, 'thorough': 60}[ctx.tier]
    # every driver on bare parameter lists and on parameter lists with defaults and annotations (which side a result
    # parameter is built from -- and whose lists it may share -- is decided by that metadata)
    mpool = w_alg.MetaPool(ctx.rng('meta'), anns=('1', '2'), p_ann=0.4)
    fpool = w_alg.MetaPool(ctx.rng('meta-future'), anns=('T', 'U'), p_ann=0.4, future=True, globs={'T': int, 'U': str})
    for drv, kw in ((w_alg.drive_composite, {}), (w_alg.drive_embed, {}), (w_alg.drive_merge, {}), (w_alg.drive_mask, {}),
                    (w_alg.drive_forwards, {}), (w_alg.drive_merge, dict(pool=mpool)), (w_alg.drive_embed, dict(pool=fpool)),
                    (w_alg.drive_forwards, dict(pool=mpool)), (w_alg.drive_composite, dict(pool=fpool))):
        ctx.deadline = ctx.clock() + (sub if not kw else sub / 2.0)
        drv(ctx, ctx.tier, **kw)
    # merge of ONE signature (the fold runs no step): the result must not share its provenance with the input
    S = w_alg.sigapi()
    for pl in (mpool, w_alg.SigPool()):
        for params in w_alg.sigs.U(('a', 'b'), 2)[:60]:
            w_alg.call(S.merge, pl.sig(params))
            # ... and embed of ONE signature, with each flag combination
            for uva, uvk in ((True, True), (False, True), (True, False)):
                w_alg.call(S.embed, pl.sig(params), use_varargs=uva, use_varkwargs=uvk)
    ctx.deadline = saved
    monitor.disable_all()
    from .. import w_fault
    w_fault.run(ctx)


def replay(ctx, rec):
    if rec.get('workload') in ('fault', 'guard-threads'):
        from .. import w_fault
        return w_fault.replay(ctx, rec)
    monitor.enable(*monitors(ctx))
    w_alg.replay(ctx, rec)

"""C03 -- mask: exact residual signature after n positionals and named arguments."""
from .. import monitor, mon_alg, w_alg

LEVEL = 'exploration'
SHARDS = {'quick': 2, 'thorough': 16}
BUDGET = {'quick': 60, 'thorough': 600}
RULE = ('mask() over signatures of U({a,b,c},3) x n in 0..len+2 x every duplicate-free ordered tuple of <=3 names from '
        'the keyword-passable names + a foreign name x hide_* flag sets (quick: U({a,b},2) exhaustive + 260 seeded '
        'signatures, one random flag set per case; thorough: all 1972 signatures, all 16 flag sets for <=1 name); '
        'the monitor compares acc(result) with acc(sig) shifted by the masked arguments, re-runs every permutation '
        'of the names, checks mask(sig,0)==sig, mask(mask(sig,n),m)==mask(sig,n+m) and the hide_* rules (structure, soundness, same returns/raises outcome as without flags); a name listed twice must raise. '
        'Non-trivial: every evaluated mask call; distinct by (sig, n, names, flags).')
ASSUMPTIONS = ['names naming a positional-only parameter are excluded (stated)',
               'with hide_* flags the outcome (returns / raises) must be that of the same mask without flags, except that under hide_args naming a positional-or-keyword parameter counts as a duplicate (the hidden *other may fill it)',
               'a name listed twice must raise (no call passes one keyword twice)']


def monitors(ctx):
    return [mon_alg.MaskMonitor(ctx)]


def run(ctx):
    monitor.enable(*monitors(ctx))
    from .. import w_suite
    w_suite.maybe(ctx)      # thorough tier: the repository's own tests under this property's monitors
    from .. import w_misc, core
    ctx.floor('C03.mask_calls', 2000)
    ctx.floor('C03.order_checked', 200)
    ctx.floor('C03.flag_soundness', 200)
    ctx.floor('C03.duplicate_names', 100)
    core.run_slices(ctx, [
        (8, lambda: w_alg.drive_mask(ctx, ctx.tier, dup=True)),
        (1, lambda: w_misc.drive_session(ctx, ctx.tier))])    # long-lived signature objects through many operations


def replay(ctx, rec):
    monitor.enable(*monitors(ctx))
    w_alg.replay(ctx, rec)

"""C02 -- embed: result = calling outer, which forwards *args/**kwargs to inner."""
from .. import monitor, mon_alg, w_alg

LEVEL = 'exploration'
SHARDS = {'quick': 2, 'thorough': 16}
BUDGET = {'quick': 60, 'thorough': 600}
RULE = ('embed() over outer in U({a,b},2) x inner in U({c,a,x},2) x the four use_* combinations (thorough: exhaustive), '
        'random pairs from 3-parameter universes and triples; the monitor builds the real chain outer->inner (def outer(O): '
        'return inner(*args, **kwargs)) and really calls it on every shape: soundness, exactness (unless the stated '
        'defaulted-outer-positional exemption applies), raise clause, fold law, bare-outer identity. '
        'Non-trivial: every embed call that returned or raised ValueError; distinct by (inputs, flags).')
ASSUMPTIONS = ['a star parameter that is forwarded does not count as a declaration of its name (the inner replaces it)',
               'exemption evaluated conservatively: any defaulted outer positional + any inner positional in the result']


def monitors(ctx):
    return [mon_alg.EmbedMonitor(ctx)]


def run(ctx):
    monitor.enable(*monitors(ctx))
    from .. import w_suite
    w_suite.maybe(ctx)      # thorough tier: the repository's own tests under this property's monitors
    from .. import w_misc, core
    ctx.floor('C02.embed_calls', 500)
    ctx.floor('C02.exactness_checked', 200)
    ctx.floor('C02.law_fold', 20)
    core.run_slices(ctx, [
        (7, lambda: w_alg.drive_embed(ctx, ctx.tier)),
        (2, lambda: w_misc.drive_session(ctx, ctx.tier))])    # long-lived signature objects through many operations


def replay(ctx, rec):
    monitor.enable(*monitors(ctx))
    w_alg.replay(ctx, rec)

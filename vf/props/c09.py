"""C09 -- merge loses nothing when inputs agree on names; identity and fold laws."""
from .. import monitor, mon_alg, w_alg

LEVEL = 'exploration'
SHARDS = {'quick': 2, 'thorough': 16}
BUDGET = {'quick': 60, 'thorough': 600}
RULE = ('(the fold law compares how often a callable is listed, too; the round-trip law is evaluated with the real ==) merge() over the same pair/triple spaces as C01 with random draws re-derived into name-aligned tuples; '
        'monitor: on name-aligned inputs acc(result) == intersection of acc(inputs) on non-colliding shapes, raise <=> '
        'empty intersection; laws merge(s)==s, merge(s,s)==s, bare (*args, **kwargs) neutral on both sides, '
        'apply_params(s,*sort_params(s))==s (every sort_params call is completed into a round trip by the monitor), '
        'merge(a,b,c)==merge(merge(a,b),c) in parameters and provenance for inputs whose shared names keep their role. '
        'Non-trivial: an exactness/fold/round-trip evaluation; distinct by input parameter lists.')
ASSUMPTIONS = ["'same name position by position' = positional parameters at one index never carry two names; role = positional-at-index | keyword-only | * | **",
               'provenance of n-ary vs nested merge compared as sets (duplicate entries are C08 finding)']


def monitors(ctx):
    return [mon_alg.MergeExact(ctx), mon_alg.RoundTrip(ctx)]


def run(ctx):
    monitor.enable(*monitors(ctx))
    from .. import w_suite
    w_suite.maybe(ctx)      # thorough tier: the repository's own tests under this property's monitors
    from .. import w_misc, core
    ctx.floor('C09.aligned', 300)
    ctx.floor('C09.law_fold', 50)
    ctx.floor('C09.law_roundtrip', 100)
    ctx.floor('C09.law_neutral', 100)
    core.run_slices(ctx, [
        (3, lambda: w_alg.drive_merge_laws(ctx, ctx.tier)),
        (6, lambda: w_alg.drive_merge(ctx, ctx.tier, want='aligned')),
        (2, lambda: w_alg.drive_merge(ctx, 'quick', want='aligned', pool=w_alg.MetaPool(ctx.rng('c09-meta')))),
        (1, lambda: w_misc.drive_session(ctx, ctx.tier))])    # long-lived signature objects through many operations


def replay(ctx, rec):
    monitor.enable(*monitors(ctx))
    w_alg.replay(ctx, rec)

"""C17 -- concurrent signature retrieval gives the sequential answer."""
from .. import w_sched

LEVEL = 'exploration'
SHARDS = {'quick': 8, 'thorough': 16}
BUDGET = {'quick': 80, 'thorough': 900}
TECHNIQUE = 'runtime monitoring with a deterministic scheduler: client threads are serialised on sys.monitoring LINE events of sigtools code and preempted at chosen statement boundaries (replayable schedules); boundary monitor compares each result with the sequential answer and the shared objects at quiescence; plus free-running stress with a 1 microsecond switch interval'
RULE = ('(solo profiles are repeated until two consecutive runs agree: state that builds up legitimately changes step counts, not answers) '
        '16 shared-object scenarios (two sigtools retrievals of one functools.wraps wrapper; sigtools vs inspect; two inspect retrievals '
        'of an as_forged object (forger wrapper, wrappers.decorator); wrapper and wrapped retrieved concurrently; modifiers- and forger-'
        'wrapped methods of one instance; a bound wrapper dropped and collected by a third thread while a second looks the method up; the '
        'first-ever lookups of forged special methods on fresh classes; functools.wraps wrappers made at run time around a function others may have analysed; a functools.lru_cache callee; a modifiers wrapper over a function without retrievable source; three-thread mixes). Per scenario: each operation alone on freshly built objects (the answer "when run alone"; compared with the answer after the other operations have run, and the shared objects must keep their attributes), then each operation alone in the shared state (sequential '
        'answer, number of line steps, steps at which the shared state is transient); one-preemption schedules (t1 after step k -> t2) at '
        'every k (quick, in priority order within an equal time slice per scenario: transient-window steps, the first 40 steps, the first '
        'two and the last execution of every distinct statement, a stride of ~1/100), two-preemption schedules over window x window pairs '
        'plus seeded random pairs, three-thread chains; then free-running stress (8 threads). Non-trivial: a schedule in which at least one '
        'preemption happened inside sigtools code; distinct by (scenario, schedule).')
ASSUMPTIONS = ['preemption only at statement boundaries of sigtools code (no interleaving the interpreter cannot produce is manufactured)',
               'a deviating answer is attributed to a known mechanism only if it equals the answer computed sequentially with the shared object put into that mechanism\'s transient state by hand',
               'a hang (30 s watchdog) is inconclusive, never a violation']


def run(ctx):
    ctx.floor('C17.schedules', 300)
    ctx.floor('C17.preemptions', 300)
    w_sched.run(ctx)
    if ctx.shard == 0:
        ctx.floor('C17.stress_operations', 500)


def replay(ctx, rec):
    w_sched.replay(ctx, rec)

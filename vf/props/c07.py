"""C07 -- retrieval is total and only ever narrows the callable's own signature."""
import time
from .. import w_corpus, w_auto

LEVEL = 'exploration'
SHARDS = {'quick': 4, 'thorough': 16}
BUDGET = {'quick': 80, 'thorough': 900}
TECHNIQUE = 'runtime monitoring at the client boundary: inspect.signature vs. the three sigtools retrievals and the Sphinx hook on every callable of a large real-world corpus (never executed), generated adversarial sources and generated forwarding programs'
RULE = ('(also: forwarding functions with up to three named parameters of their own, drawn by kind profile; an earlier same-named definition in the same file that was already inspected) '
        'every function, class, method, partial and callable instance found one level deep (module members and members of classes '
        'defined there) in the importable standard library and the packages installed beside the repository (quick: a fixed core + '
        'a seeded third of ~1300 modules; thorough: all), ~60 adversarial sources (partials of forwarding functions with arguments the callee cannot take, bodies building partial(*args, **kwargs), unhashable callables, unevaluable postponed annotations, async, generators, walrus, match, comprehensions, '
        'starred calls, global/nonlocal, class bodies, decorators, lambdas sharing a line or sitting in a literal, PEP 695 syntax, '
        'self- and mutually-forwarding functions, unresolvable / builtin / raising callees, exec-defined functions, builtins) and '
        'generated functools.partial objects (functions, bound methods, classes, callable instances of up to four parameters x bound positional counts up to one too many x up to three keywords in any order), every adversarial source also compiled as the __main__ module, and seeded forwarding programs (the same relation, narrowing included, on every generated wrapper): inspect succeeds => the three retrievals return an UpgradedSignature; inspect raises E => '
        'the same type; plain functions/methods: acc(result) on non-colliding shapes within acc(own parameter list) (stubs); Sphinx '
        'hook returns its inputs or the string forms of the evaluated signature and never raises. Non-trivial: a callable whose '
        'signature discovery refined; distinct by dotted name.')
ASSUMPTIONS = ['corpus callables are never called; modules with import-time side effects are on a fixed skip list',
               'objects whose inspect.signature is not stable between two calls are skipped and counted',
               'where inspect.signature raises but sigtools answers, nothing is demanded (the statement only forbids other exception types)']


def run(ctx):
    ctx.floor('C07.callables', 2000)
    ctx.floor('C07.refined_by_discovery', 20)
    ctx.floor('C07.narrowing_checked', 1000)
    ctx.floor('C07.sphinx_hook_calls', 1000)
    if ctx.shard == 0:
        w_corpus.run_adversarial(ctx)
        ctx.floor('C07.adversarial_objects', 40)
    w_corpus.run_generated_partials(ctx)
    ctx.floor('C07.generated_partials', 100)
    saved = ctx.deadline
    ctx.deadline = ctx.clock() + {'quick': 10, 'thorough': 120}[ctx.tier]
    w_auto.run(ctx, ('C07',), {'quick': 3000, 'thorough': 300000}[ctx.tier])
    ctx.deadline = saved
    w_corpus.run_corpus(ctx)


def replay(ctx, rec):
    if rec.get('workload') == 'auto':
        return w_auto.replay(ctx, rec, ('C07',))
    w_corpus.replay(ctx, rec)

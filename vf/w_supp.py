"""W-SUPP (C20): sigtools.support helpers against CPython itself."""
import inspect
import itertools

from . import sigs, oracle
from . import core
from .sigs import PO, PK, VA, KO, VK, KIND_OF
from .sigutil import safe_eq

EMPTY = inspect.Parameter.empty


def V(ctx, mech, what, w, rp):
    ctx.violation('C20', 'SupportBoundary', mech, what, w, rp)


def meta_of(sig, evaluated=False):
    out = []
    for p in sig.parameters.values():
        ann = p.annotation
        if evaluated and hasattr(p, 'upgraded_annotation'):
            ann = p.upgraded_annotation.source_value()
        out.append((p.name, KIND_OF[p.kind], p.default, ann))
    return out


def same(m1, m2, ignore_kwo_order=False):
    if ignore_kwo_order:
        split = lambda m: ([x for x in m if x[1] != KO], sorted([x for x in m if x[1] == KO], key=lambda x: x[0]))
        a1, k1 = split(m1)
        a2, k2 = split(m2)
        return same(a1, a2) and same(k1, k2)
    return len(m1) == len(m2) and all(
        a[0] == b[0] and a[1] == b[1] and safe_eq(a[2], b[2]) and safe_eq(a[3], b[3]) for a, b in zip(m1, m2))


def text_native(params):
    return sigs.render(params).replace(': ', ':').replace(' = ', '=')


def text_chevrons(params):
    """The <a> spelling of positional-only parameters understood by read_sig."""
    out = []
    star = False
    for n, k, d, a in params:
        if k == KO and not star:
            out.append('*')
            star = True
        t = n
        if k == PO:
            t = '<%s>' % n
        elif k == VA:
            t = '*' + n
            star = True
        elif k == VK:
            t = '**' + n
        if a is not None:
            t += ':' + a
        if d is not None:
            t += '=' + d
        out.append(t)
    return ', '.join(out)


GLOBS = {'T': int, 'U': str}


@core.guarded(None)
def check_signature(ctx, params, ret, rnd):
    from sigtools import support, signatures
    import sigtools
    ctx.evaluated()
    ctx.count('C20.signatures')
    rp = dict(workload='supp', params=sigs.to_json(params), ret=ret)
    w = {'signature': '(%s)%s' % (sigs.render(params), ' -> ' + ret if ret else '')}
    native = sigs.make_func(params, ret=ret, globs=dict(GLOBS), body='return dict(locals())')
    want_sig = signatures.signature(native)
    want = meta_of(want_sig)
    want_ret = want_sig.return_annotation
    ctx.nontrivial((params, ret))
    ctx.sample('support-signature', lambda: w, limit=3)
    has_po = sigs.has_kind(params, PO)
    retarg = {} if ret is None else {'ret': ret}

    def compare(label, build, ignore_kwo_order=False, evaluated=False):
        ctx.count('C20.roundtrips')
        try:
            got_sig = build()
        except Exception as e:
            V(ctx, 'helper-raises@' + label.split('(')[0], '%s raised %s: %s' % (label, type(e).__name__, e), dict(w, helper=label), rp)
            return None
        got = meta_of(got_sig, evaluated=evaluated)
        got_ret = got_sig.return_annotation
        if evaluated:
            got_ret = got_sig.upgraded_return_annotation.source_value()
        if not same(got, want, ignore_kwo_order) or not safe_eq(got_ret, want_ret):
            V(ctx, 'roundtrip-differs@' + label.split('(')[0], '%s does not reproduce the signature' % label,
              dict(w, helper=label, got=str(got_sig)), rp)
        return got_sig

    text = text_native(params)
    compare('s(native text)', lambda: support.s(text, globals=dict(GLOBS), **retarg))
    compare('s(native text, future annotations)',
            lambda: support.s(text, globals=dict(GLOBS), future_features=('annotations',), **retarg), evaluated=True)
    if has_po:
        compare('s(chevron text)', lambda: support.s(text_chevrons(params), globals=dict(GLOBS), **retarg))
    # func_from_sig works from str(sig): only literal defaults/annotations survive str()
    literal = all((d is None or d.isdigit() or d in RICH) and (a is None or a.isdigit() or a[0] in '\'"' or a in RICH) for n, k, d, a in params) \
        and (ret is None or ret.isdigit() or ret[0] in '\'"' or ret in RICH)
    if literal:
        ctx.count('C20.func_from_sig')
        compare('func_from_sig(sig)', lambda: sigtools.signature(support.func_from_sig(want_sig)))
    if not has_po:
        for ua, up, uk in itertools.product((False, True), repeat=3):
            if not (ua or up or uk):
                continue
            compare('s(text, use_modifiers_annotate=%s, use_modifiers_posoargs=%s, use_modifiers_kwoargs=%s)' % (ua, up, uk),
                    lambda: support.s(text, globals=dict(GLOBS), use_modifiers_annotate=ua,
                                      use_modifiers_posoargs=up, use_modifiers_kwoargs=uk, **retarg),
                    ignore_kwo_order=True)
    # f(): arguments keyed by parameter name; bind_callsig; sort_callsigs
    try:
        func = support.f(text, globals=dict(GLOBS), **retarg)
    except Exception as e:
        V(ctx, 'helper-raises@f', 'f(text) raised %s' % type(e).__name__, dict(w, exception=repr(e)), rp)
        return
    bp = sigs.shape_key(params)
    sp = oracle.Space.get(sigs.positional_capacity(bp) + 2, set(sigs.names_of(bp)) | {oracle.FOREIGN})
    skip = 0
    if sigs.has_kind(bp, VK):
        skip = sp.full & ~sp.without_keywords({p[0] for p in bp if p[1] == PO})
    callsigs = []
    for i, (n, kws) in enumerate(sp.shapes):
        if (skip >> i) & 1:
            continue
        # (values are pairwise distinguishable; one positional value is None, one is another falsy value)
        args = tuple(None if j == i % 2 else (0 if j == 2 else ('p', j)) for j in range(n))
        kwargs = {k: ('k', k) for k in sorted(kws)}
        callsigs.append((args, kwargs))
        ctx.count('C20.calls_compared')
        try:
            real = native(*args, **kwargs)
            rok = True
        except TypeError:
            rok = False
        try:
            got = func(*args, **kwargs)
            gok = True
        except TypeError:
            gok = False
        if rok != gok or (rok and got != real):
            V(ctx, 'f-differs-from-native-def', 'the function made by f() does not return its arguments keyed by parameter name like a native def',
              dict(w, shape=[n, sorted(kws)], got=repr(got) if gok else 'TypeError', expected=repr(real) if rok else 'TypeError'), rp)
            break
        try:
            # (the positional arguments arrive as a tuple, or as any other sequence: a list, every other time)
            bound = support.bind_callsig(want_sig, list(args) if i % 2 else args, kwargs)
            bok = True
        except TypeError:
            bok = False
        except Exception as e:
            V(ctx, 'bind-callsig-raises-%s' % type(e).__name__, 'bind_callsig raised %s' % type(e).__name__,
              dict(w, shape=[n, sorted(kws)]), rp)
            break
        if bok != rok:
            V(ctx, 'bind-callsig-acceptance', 'bind_callsig %s a call CPython %s' % (
                'accepts' if bok else 'rejects', 'accepts' if rok else 'rejects'), dict(w, shape=[n, sorted(kws)]), rp)
            break
        if bok and bound != real:
            V(ctx, 'bind-callsig-mapping', 'bind_callsig returns another mapping than really calling the function',
              dict(w, shape=[n, sorted(kws)], got=repr(bound), expected=repr(real)), rp)
            break
    try:
        valid, invalid = support.sort_callsigs(want_sig, callsigs)
    except Exception as e:
        V(ctx, 'sort-callsigs-raises', 'sort_callsigs raised %s' % type(e).__name__, w, rp)
        return
    ctx.count('C20.sort_callsigs')
    for a, k, bound in valid:
        try:
            if native(*a, **k) != bound:
                V(ctx, 'sort-callsigs-valid-mapping', 'sort_callsigs lists a call as valid with a wrong mapping', dict(w, call=repr((a, k))), rp)
                break
        except TypeError:
            V(ctx, 'sort-callsigs-valid-rejected', 'sort_callsigs lists a call as valid that CPython rejects', dict(w, call=repr((a, k))), rp)
            break
    for a, k in invalid:
        try:
            native(*a, **k)
        except TypeError:
            continue
        V(ctx, 'sort-callsigs-invalid-accepted', 'sort_callsigs lists a call as invalid that CPython accepts', dict(w, call=repr((a, k))), rp)
        break
    if len(valid) + len(invalid) != len(callsigs):
        V(ctx, 'sort-callsigs-not-a-partition', 'sort_callsigs lost or duplicated calls', w, rp)
    # make_up_callsigs
    # asked twice for the same signature, with another bound each time (smaller first or larger first):
    # each answer has to be complete for ITS bound
    first_extra = rnd.choice((0, 1, 2))
    for extra in (first_extra, rnd.choice([e for e in (0, 1, 2) if e != first_extra])):
      if len(params) + extra <= 6:
          ctx.count('C20.make_up_callsigs')
          try:
              made = support.make_up_callsigs(want_sig, extra=extra)
          except Exception as e:
              V(ctx, 'make-up-callsigs-raises', 'make_up_callsigs raised %s' % type(e).__name__, w, rp)
              return
          named = [p[0] for p in params if p[1] in (PO, PK)] + [p[0] for p in params if p[1] == KO]
          extras = ['__make_up_callsigs__extra_%d' % i for i in range(extra)]
          pos_names = named + extras
          kw_names = pos_names + [p[0] for p in params if p[1] in (VA, VK)]
          have = set((a, frozenset(k)) for a, k in made)
          missing = None
          for i in range(len(pos_names) + 1):
              for r in range(len(kw_names) + 1):
                  for c in itertools.combinations(kw_names, r):
                      if (tuple(pos_names[:i]), frozenset(c)) not in have:
                          missing = (pos_names[:i], sorted(c))
                          break
                  if missing:
                      break
              if missing:
                  break
          if missing:
              V(ctx, 'make-up-callsigs-incomplete', 'make_up_callsigs misses a positional prefix x keyword subset within its bounds',
                dict(w, extra=extra, missing=repr(missing)), rp)


# literal defaults / annotations whose text contains the characters the string form is cut at (commas, colons,
# equal signs, brackets, both kinds of quotes); all survive str(signature) (repr) unchanged in value
RICH_DEFAULTS = ("'C:\\\\'", "'a\\\\b, c'", '(1, 2)', "'x, y'", '"it\'s"', '[1, 2]', "{'k':1, 'j':2}", "'a=b'", "'c:d'", '\'say "hi", it\\\'s\'', "('(', ']')", "''", '()')
RICH_ANNOTATIONS = ("'x, y'", '(1, 2)', "'p=q'", '{1:2}', '"don\'t"', "'r:s'", '[1, [2, 3]]')
RICH = set(RICH_DEFAULTS) | set(RICH_ANNOTATIONS)


def decorate(rnd, params):
    out = []
    literal = rnd.random() < 0.6
    rich = literal and rnd.random() < 0.4
    for i, (n, k, d, a) in enumerate(params):
        if d is not None:
            d = str(10 * (i + 1))
            if rich and rnd.random() < 0.6:
                d = rnd.choice(RICH_DEFAULTS)
        r = rnd.random()
        if r < 0.35:
            a = rnd.choice(('1', '2', "'note'")) if literal else rnd.choice(('T', 'U'))
            if rich and rnd.random() < 0.5:
                a = rnd.choice(RICH_ANNOTATIONS)
        out.append((n, k, d, a))
    ret = None
    if rnd.random() < 0.5:
        ret = rnd.choice(('1', "'r'")) if literal else rnd.choice(('T', 'U'))
        if rich and rnd.random() < 0.3:
            ret = rnd.choice(("'x, y'", '(1, 2)'))
    return tuple(out), ret


def run(ctx):
    rnd = ctx.rng('supp')
    U = sigs.U(('a', 'b', 'c'), 3, stars=sigs.STARS2[:1])
    if ctx.tier == 'quick':
        order = list(range(len(U)))
        rnd.shuffle(order)
        chosen = sorted(order[:800])
    else:
        chosen = range(len(U))
    # the degenerate ones always, first: nothing at all, only star parameters
    if ctx.shard == 0:
        for params in ((), (('args', VA, None, None),), (('kwargs', VK, None, None),),
                       (('args', VA, None, None), ('kwargs', VK, None, None)), (('a', PO, None, None),), (('a', KO, None, None),)):
            for ret in (None, '1'):
                check_signature(ctx, params, ret, rnd)
    idx = 0
    done = True
    for j in chosen:
        if ctx.out_of_time('support helpers'):
            done = False
            break
        idx += 1
        if not ctx.mine(idx):
            continue
        params, ret = decorate(rnd, U[j])
        check_signature(ctx, params, ret, rnd)
        if ctx.tier == 'thorough':
            for _ in range(5):
                params, ret = decorate(rnd, U[j])
                check_signature(ctx, params, ret, rnd)
    if ctx.tier == 'thorough':
        ctx.exhaustive['support: every parameter list of U({a,b,c},3) (metadata seeded)'] = done
    if ctx.shard == 0:
        stress_threads(ctx, rnd, U)


def stress_threads(ctx, rnd, U):
    """'For every valid signature' holds for every schedule too: several threads build functions
    from different signature texts at once (s, f, func_from_sig keep nothing per call that another
    call may see); each result must be what the same call gives alone."""
    import sys
    import threading
    import inspect as _inspect
    from sigtools import support
    texts = []
    for p in rnd.sample(U, 24):
        t = sigs.render(tuple((n, k, d, None) for n, k, d, a in p))
        try:
            texts.append((t, str(support.s(t))))
        except Exception:
            continue
    if len(texts) < 4:
        return
    n_threads, per_thread = 8, {'quick': 600, 'thorough': 6000}[ctx.tier]
    wrong = []
    lock = threading.Lock()
    start = threading.Event()

    def worker(k):
        r = __import__('random').Random(ctx.seed * 1000 + k)
        start.wait()
        for _ in range(per_thread):
            t, want = r.choice(texts)
            try:
                how = r.randrange(3)
                if how == 0:
                    got = str(support.s(t))
                elif how == 1:
                    got = str(_inspect.signature(support.f(t)))
                else:
                    got = str(_inspect.signature(support.func_from_sig(support.s(t))))
            except Exception as e:
                got = 'raised %s' % type(e).__name__
            if got != want:
                with lock:
                    wrong.append((t, want, got))
    old = sys.getswitchinterval()
    sys.setswitchinterval(1e-6)
    try:
        threads = [threading.Thread(target=worker, args=(k,)) for k in range(n_threads)]
        for th in threads:
            th.start()
        start.set()
        for th in threads:
            th.join(120)
    finally:
        sys.setswitchinterval(old)
    ctx.evaluated(n_threads * per_thread)
    ctx.count('C20.concurrent_builds', n_threads * per_thread)
    ctx.nontrivial(('stress', len(texts)))
    if wrong:
        t, want, got = wrong[0]
        ctx.violation('C20', 'SupportBoundary', 'concurrent-build-gives-another-signature',
                      'a function built from a signature text while other threads build other ones has another signature than when built alone (%d of %d calls)' % (len(wrong), n_threads * per_thread),
                      {'text': t, 'alone': want, 'concurrently': got}, dict(workload='supp-stress'))


def replay(ctx, rec):
    if rec.get('workload') == 'supp-stress':
        rnd = ctx.rng('supp')
        return stress_threads(ctx, rnd, sigs.U(('a', 'b', 'c'), 3, stars=sigs.STARS2[:1]))
    check_signature(ctx, sigs.from_json(rec['params']), rec['ret'], ctx.rng('replay'))

"""The oracle for "accepts": CPython's own argument binder, on call shapes.

A call shape is (number of positional arguments, frozenset of keyword names).
acc(P, space) is the set of shapes of a finite shape space for which *really
calling*  def f(P): pass  does not raise TypeError -- as a bit mask over
space.shapes.  Nothing here re-implements argument binding.
"""
import itertools
import random

from . import sigs
from .sigs import PO, PK, VA, KO, VK

FOREIGN = 'zz'


class Space(object):
    """A finite space of call shapes."""
    _cache = {}

    def __init__(self, maxpos, kwsets):
        self.maxpos = maxpos
        self.kwsets = kwsets
        self.shapes = [(n, kws) for n in range(maxpos + 1) for kws in kwsets]
        self.posargs = [(0,) * n for n in range(maxpos + 1)]
        self.kwdicts = [dict.fromkeys(kws, 0) for kws in kwsets]
        self.nshapes = len(self.shapes)
        self.full = (1 << self.nshapes) - 1
        self._acc = {}
        self._forbid = {}
        pure = 0
        allpos = 0
        for i, (n, kws) in enumerate(self.shapes):
            if n == 0 or not kws:
                pure |= 1 << i
        self.pure = pure

    @classmethod
    def get(cls, maxpos, names):
        """All keyword subsets of `names` (must be few) x 0..maxpos positionals."""
        names = tuple(sorted(set(names)))
        key = (maxpos, names)
        sp = cls._cache.get(key)
        if sp is None:
            if len(names) > 9:
                raise ValueError('too many names for an exhaustive shape space')
            kwsets = [frozenset(c) for r in range(len(names) + 1)
                      for c in itertools.combinations(names, r)]
            if len(cls._cache) > 5000:
                cls._cache.clear()
            sp = cls._cache[key] = cls(maxpos, kwsets)
            sp.names = names
        return sp

    @classmethod
    def sampled(cls, maxpos, names, required_sets, seed=0, nrandom=64):
        """Reduced space for many names: {}, singletons, pairs, the given sets,
        the full set and `nrandom` seeded random subsets."""
        names = tuple(sorted(set(names)))
        rnd = random.Random(hash((seed, names)) & 0xffffffff)
        ks = {frozenset()}
        ks.update(frozenset([n]) for n in names)
        if len(names) <= 24:
            ks.update(frozenset(c) for c in itertools.combinations(names, 2))
        for r in required_sets:
            r = frozenset(r)
            ks.add(r)
            for n in names:
                ks.add(r | {n})
                ks.add(r - {n})
        ks.add(frozenset(names))
        for _ in range(nrandom):
            ks.add(frozenset(n for n in names if rnd.random() < 0.5))
        sp = cls(maxpos, sorted(ks, key=lambda s: (len(s), sorted(s))))
        sp.names = names
        return sp

    # -- acceptance of a parameter list
    def acc(self, params):
        key = sigs.render(params, with_meta=False)
        r = self._acc.get(key)
        if r is None:
            f = sigs.stub(params)
            r = 0
            i = 0
            for pos in self.posargs:
                for kw in self.kwdicts:
                    try:
                        f(*pos, **kw)
                    except TypeError:
                        pass
                    else:
                        r |= 1 << i
                    i += 1
            self._acc[key] = r
        return r

    def acc_callable(self, func, exc=TypeError):
        """Shapes on which really calling `func` does not raise `exc`.
        Any other exception propagates to the caller."""
        r = 0
        i = 0
        for pos in self.posargs:
            for kw in self.kwdicts:
                try:
                    func(*pos, **kw)
                except exc:
                    pass
                else:
                    r |= 1 << i
                i += 1
        return r

    def without_keywords(self, forbidden):
        """Mask of the shapes using none of the `forbidden` keyword names."""
        forbidden = frozenset(forbidden) & frozenset(self.names)
        r = self._forbid.get(forbidden)
        if r is None:
            r = 0
            for i, (n, kws) in enumerate(self.shapes):
                if not (kws & forbidden):
                    r |= 1 << i
            self._forbid[forbidden] = r
        return r

    def noncolliding(self, result, inputs):
        """Every keyword is keyword-passable in the result, or is not a
        parameter name of any input."""
        kp = sigs.kw_passable(result)
        inn = set()
        for s in inputs:
            inn.update(sigs.names_of(s))
        return self.without_keywords(inn - kp)

    def select(self, pred):
        r = 0
        for i, (n, kws) in enumerate(self.shapes):
            if pred(n, kws):
                r |= 1 << i
        return r

    def first(self, mask):
        """Some shape in a non-empty mask, as a JSON-friendly pair."""
        i = (mask & -mask).bit_length() - 1
        n, kws = self.shapes[i]
        return [n, sorted(kws)]

    def index(self, n, kws):
        return self.shapes.index((n, frozenset(kws)))

    def shift(self, mask, dn, add):
        """Mask of shapes (p, K) such that (p+dn, K|add) is in `mask`;
        shapes whose image falls outside the space are reported in `outside`."""
        idx = getattr(self, '_idx', None)
        if idx is None:
            idx = self._idx = {s: i for i, s in enumerate(self.shapes)}
        add = frozenset(add)
        r = 0
        for i, (n, kws) in enumerate(self.shapes):
            j = idx.get((n + dn, kws | add))
            if j is not None and (mask >> j) & 1:
                r |= 1 << i
        return r


def space_for(param_lists, extra_pos=2, extra_names=(FOREIGN,)):
    maxpos = max([sigs.positional_capacity(p) for p in param_lists] + [0]) + extra_pos
    names = set(extra_names)
    for p in param_lists:
        names.update(sigs.names_of(p))
    if len(names) <= 9:
        return Space.get(maxpos, names)
    req = [[q[0] for q in p if q[1] in (PK, KO) and q[2] is None] for p in param_lists]
    return Space.sampled(maxpos, names, req)


# ---------------------------------------------------------------------- roles

def strict_roles(params):
    r = {}
    i = 0
    for n, k, d, a in params:
        if k in (PO, PK):
            r[n] = (k, i)
            i += 1
        else:
            r[n] = (k, None)
    return r


def loose_roles(params):
    r = {}
    i = 0
    for n, k, d, a in params:
        if k in (PO, PK):
            r[n] = ('pos', i)
            i += 1
        else:
            r[n] = (k, None)
    return r


def _consistent(param_lists, rolefn):
    seen = {}
    for p in param_lists:
        for n, role in rolefn(p).items():
            if seen.setdefault(n, role) != role:
                return False
    return True


def strictly_role_consistent(param_lists):
    """Every shared name denotes the same kind of parameter at the same
    positional index in each input (C01 part 2, C15)."""
    return _consistent(param_lists, strict_roles)


def loosely_role_consistent(param_lists):
    return _consistent(param_lists, loose_roles)


def name_aligned(param_lists):
    """Positional parameters carry the same name position by position and
    shared names keep their (loose) role (C09)."""
    if not loosely_role_consistent(param_lists):
        return False
    poss = [[n for n, k, d, a in p if k in (PO, PK)] for p in param_lists]
    for col in itertools.zip_longest(*poss):
        present = {n for n in col if n is not None}
        if len(present) > 1:
            return False
    return True

"""W-CORPUS / W-ADV (C07): every callable found one level deep in the importable
standard library and the installed packages, plus generated adversarial
sources.  Corpus callables are *never executed*, only retrieved."""
import builtins
import functools
import importlib
import inspect
import io
import os
import pkgutil
import sys
import types
import contextlib

from . import sigs, oracle, env
from .sigs import PO, PK, VA, KO, VK
from .sigutil import bparams, show, fname

SKIP_PREFIXES = (
    'antigravity', 'this', 'idlelib', 'tkinter', 'turtle', 'turtledemo', 'test', '__phello__', 'lib2to3',
    'msilib', 'winreg', 'winsound', '_winapi', 'nt', 'msvcrt', '_overlapped', 'ensurepip', 'venv', 'pip',
    'setuptools', '_distutils_hack', 'pkg_resources', 'distutils', 'sigtools', 'vf', 'check', 'conftest',
    '_pytest.pytester', 'pytest_cov.embed', 'xdist.looponfail', 'hypothesis.extra', 'IPython', 'readline',
    'rlcompleter', 'pydoc_data', 'curses', 'dbm', 'nis', 'ossaudiodev', 'spwd', 'crypt', 'imghdr', 'sndhdr',
    'telnetlib', 'nntplib', 'smtpd', 'asynchat', 'asyncore', 'imp', 'pipes', 'xdrlib', 'uu', 'cgi', 'cgitb',
    'chunk', 'aifc', 'audioop', 'sunau', 'mailcap', 'sre_compile', 'sre_constants', 'sre_parse',
    'multiprocessing.popen_', 'asyncio.windows', 'encodings.mbcs', 'encodings.oem', 'ctypes.wintypes',
    'sphinx.testing', 'coverage.fullcoverage', 'execnet.script', 'pygments.sphinxext', 'pytest_benchmark',
    'py_cpuinfo', 'cpuinfo',
)
PACKAGES = ['sphinx', 'pygments', 'docutils', 'jinja2', 'requests', 'urllib3', '_pytest', 'pytest', 'hypothesis',
            'attr', 'attrs', 'babel', 'mock', 'packaging', 'pluggy', 'coverage', 'execnet', 'markupsafe', 'certifi',
            'charset_normalizer', 'idna', 'imagesize', 'iniconfig', 'sortedcontainers', 'snowballstemmer',
            'alabaster', 'typing_extensions', 'xdist', 'pytest_timeout', 'pytest_mock', 'pytest_asyncio',
            'repeated_test', 'roman_numerals', 'sphinxcontrib']

RECURSION_MECH = 'self-forwarding-function-recursion'
FABRICATE_MECH = 'object-fabricates-every-attribute'


def skipped(name):
    return any(name == p or name.startswith(p + '.') or name.startswith(p) and p.endswith('_') for p in SKIP_PREFIXES) \
        or name.split('.')[-1] in ('__main__', 'conftest', 'setup')


def module_names(tier):
    names = [n for n in sorted(sys.stdlib_module_names) if not n.startswith('_') and not skipped(n)]
    # second level of a few stdlib packages
    for pkg in ('email', 'json', 'logging', 'concurrent', 'concurrent.futures', 'importlib', 'unittest', 'urllib',
                'xml', 'xml.etree', 'xml.dom', 'http', 'html', 'collections', 'asyncio', 'multiprocessing',
                'wsgiref', 'sqlite3', 'ctypes', 'encodings', 'zoneinfo', 'tomllib', 're', 'os'):
        try:
            m = importlib.import_module(pkg)
        except BaseException:
            continue
        for info in pkgutil.iter_modules(getattr(m, '__path__', []) or [], pkg + '.'):
            if not skipped(info.name) and not info.name.split('.')[-1].startswith('_'):
                names.append(info.name)
    for pkg in PACKAGES:
        try:
            m = importlib.import_module(pkg)
        except BaseException:
            continue
        names.append(pkg)
        path = getattr(m, '__path__', None)
        if not path:
            continue
        try:
            for info in pkgutil.walk_packages(path, pkg + '.', onerror=lambda n: None):
                if not skipped(info.name):
                    names.append(info.name)
        except BaseException:
            pass
    seen = set()
    out = []
    for n in names:
        if n not in seen:
            seen.add(n)
            out.append(n)
    return out


def safe_import(name):
    try:
        with contextlib.redirect_stdout(io.StringIO()), contextlib.redirect_stderr(io.StringIO()):
            return importlib.import_module(name)
    except BaseException:
        return None


def members(mod):
    """(dotted name, what, object) for functions, classes, methods, partials,
    callable instances one level deep."""
    out = []
    modname = mod.__name__
    try:
        items = sorted(vars(mod).items())
    except Exception:
        return out
    for name, obj in items:
        if name.startswith('__'):
            continue
        try:
            if not callable(obj):
                continue
        except Exception:
            continue
        if isinstance(obj, types.ModuleType):
            continue
        dotted = '%s.%s' % (modname, name)
        what = 'class' if isinstance(obj, type) else 'function'
        out.append((dotted, what, obj))
        if isinstance(obj, type) and getattr(obj, '__module__', None) == modname:
            try:
                citems = sorted(vars(obj).items())
            except Exception:
                continue
            for mname, m in citems:
                if mname.startswith('__') and mname not in ('__init__', '__call__', '__new__'):
                    continue
                try:
                    bound = getattr(obj, mname)
                except Exception:
                    continue
                try:
                    if callable(bound):
                        out.append(('%s.%s' % (dotted, mname), 'method', bound))
                except Exception:
                    pass
    return out


def outcome(fn, *a, **k):
    try:
        return ('ok', fn(*a, **k))
    except RecursionError as e:
        return ('raise', e)
    except Exception as e:
        return ('raise', e)


def fabricates_attributes(obj):
    try:
        return hasattr(obj, '_vf_sentinel_attribute_that_nobody_defines')
    except Exception:
        return False


def is_plain_function(obj):
    f = obj.__func__ if isinstance(obj, types.MethodType) else obj
    if not isinstance(f, types.FunctionType):
        return False
    for o in (obj, f):
        d = getattr(o, '__dict__', {})
        if '__wrapped__' in d or '__signature__' in d or '_sigtools__forger' in d or '_sigtools__autoforwards_hint' in d:
            return False
    return True


UNHASHABLE_MECH = 'unhashable-callable-cannot-key-provenance'
POSONLY_KW_MECH = 'partial-keyword-names-positional-only-parameter-next-to-varkwargs'


def posonly_name_bound_by_keyword(obj):
    """Mechanism predicate of the open finding: a partial object (at any level of a stack of partials) binds a
    keyword whose name is that of a positional-only parameter of the callable it wraps, and that callable has
    **kwargs (Python then delivers the keyword through **kwargs; sigtools' mask treats it as naming the parameter)."""
    seen = 0
    while isinstance(obj, functools.partial) and seen < 6:
        seen += 1
        try:
            under = inspect.signature(obj.func)
        except (ValueError, TypeError):
            return False
        ps = list(under.parameters.values())
        if any(p.kind == p.VAR_KEYWORD for p in ps) and \
                any(p.kind == p.POSITIONAL_ONLY and p.name in (obj.keywords or {}) for p in ps):
            return True
        # the function's own def list (inspect.signature of a partial over a partial already dropped consumed ones)
        try:
            code = getattr(getattr(obj.func, '__func__', obj.func), '__code__', None) or \
                getattr(getattr(obj.func, '__init__', None), '__code__', None) or getattr(getattr(type(obj.func), '__call__', None), '__code__', None)
            if code is not None and code.co_flags & 0x08 and any(n in (obj.keywords or {}) for n in code.co_varnames[:code.co_posonlyargcount]):
                return True
        except Exception:
            pass
        obj = obj.func
    return False


def unhashable(obj):
    """Mechanism predicate of the open finding: the callable itself (or the callable a
    partial wraps) cannot be hashed, so it cannot be a key of sources['+depths']."""
    seen = 0
    while obj is not None and seen < 5:
        seen += 1
        try:
            hash(obj)
        except TypeError:
            return True
        obj = getattr(obj, 'func', None) if isinstance(obj, functools.partial) else None
    return False


def check_callable(ctx, dotted, what, obj, sphinx=True, rp=None):
    import sigtools
    from sigtools import signatures, _signatures
    ctx.evaluated()
    ctx.count('C07.callables')
    rp = rp or dict(workload='corpus', dotted=dotted)
    w = {'object': dotted, 'type': type(obj).__name__}
    V = lambda mech, what_, extra=None: ctx.violation('C07', 'Totality', mech, what_, dict(w, **(extra or {})), rp)
    i1 = outcome(inspect.signature, obj)
    i2 = outcome(inspect.signature, obj)
    if i1[0] != i2[0] or (i1[0] == 'ok' and str(i1[1]) != str(i2[1])):
        ctx.count('C07.skipped_inspect_unstable')
        return
    results = {}
    for label, call in (('sigtools.signature', lambda: sigtools.signature(obj)),
                        ('sigtools.signature(auto=False)', lambda: sigtools.signature(obj, auto=False)),
                        ('signatures.signature', lambda: signatures.signature(obj))):
        r = outcome(call)
        results[label] = r
        ctx.count('C07.retrievals')
        if i1[0] == 'ok':
            if r[0] != 'ok':
                e = r[1]
                if isinstance(e, RecursionError):
                    ctx.violation('C07', 'Totality', RECURSION_MECH,
                                  'a function that forwards its star parameters to itself makes retrieval recurse without bound',
                                  dict(w, retrieval=label), rp)
                elif fabricates_attributes(obj):
                    ctx.violation('C07', 'Totality', FABRICATE_MECH,
                                  'an object that answers every attribute lookup makes retrieval raise', dict(w, retrieval=label, exception=repr(e)[:200]), rp)
                elif isinstance(e, ValueError) and posonly_name_bound_by_keyword(obj):
                    ctx.violation('C07', 'Totality', POSONLY_KW_MECH,
                                  'a partial object binds a keyword named like a positional-only parameter of a callable with **kwargs: retrieval raises ValueError where inspect.signature succeeds',
                                  dict(w, retrieval=label, exception=repr(e)[:200], inspect=str(i1[1])[:200]), rp)
                elif isinstance(e, TypeError) and unhashable(obj) and 'unhashable' in str(e):
                    ctx.violation('C07', 'Totality', UNHASHABLE_MECH,
                                  'an unhashable callable cannot be a key of the provenance maps: retrieval raises TypeError',
                                  dict(w, retrieval=label, exception=repr(e)[:200]), rp)
                else:
                    V('raises-%s-where-inspect-succeeds' % type(e).__name__,
                      '%s raised %s although inspect.signature succeeds' % (label, type(e).__name__),
                      dict(retrieval=label, exception=repr(e)[:300], inspect=str(i1[1])[:200]))
            elif not isinstance(r[1], _signatures.UpgradedSignature):
                if fabricates_attributes(obj):
                    ctx.violation('C07', 'Totality', FABRICATE_MECH,
                                  'an object that answers every attribute lookup makes retrieval return a non-signature', dict(w, retrieval=label), rp)
                else:
                    V('returns-%s' % type(r[1]).__name__, '%s returned %s' % (label, type(r[1]).__name__), dict(retrieval=label))
        else:
            if r[0] == 'ok':
                # inspect raises, sigtools answers: not forbidden by the statement
                ctx.count('C07.answers_where_inspect_raises')
            elif type(r[1]) is not type(i1[1]):
                if fabricates_attributes(obj):
                    ctx.violation('C07', 'Totality', FABRICATE_MECH,
                                  'an object that answers every attribute lookup makes retrieval raise another exception type', dict(w, retrieval=label), rp)
                elif isinstance(r[1], RecursionError):
                    ctx.violation('C07', 'Totality', RECURSION_MECH, 'unbounded recursion', dict(w, retrieval=label), rp)
                else:
                    V('raises-%s-instead-of-%s' % (type(r[1]).__name__, type(i1[1]).__name__),
                      '%s raised %s where inspect.signature raises %s' % (label, type(r[1]).__name__, type(i1[1]).__name__),
                      dict(retrieval=label, exception=repr(r[1])[:300]))
    full = results['sigtools.signature']
    if i1[0] == 'ok' and full[0] == 'ok' and isinstance(full[1], _signatures.UpgradedSignature):
        S = full[1]
        try:
            refined = str(S) != str(i1[1])
        except Exception:
            refined = False
        if refined:
            ctx.count('C07.refined_by_discovery')
            ctx.nontrivial(dotted)
            ctx.sample('refined', lambda: dict(w, inspect=str(i1[1])[:200], sigtools=str(S)[:200]), limit=6)
        # narrowing: plain functions / methods only
        if is_plain_function(obj):
            ctx.count('C07.narrowing_checked')
            try:
                own = bparams(i1[1])
                res = bparams(S)
                sp = oracle.space_for([own, res])
                nc = sp.noncolliding(res, [own])
                bad = sp.acc(res) & nc & ~sp.acc(own)
            except Exception as e:
                ctx.count('C07.narrowing_not_computable')
                bad = 0
            if bad:
                V('widens-own-signature', 'the result accepts a non-colliding call the function\'s own parameter list rejects',
                  dict(own=str(i1[1])[:200], result=str(S)[:200], shape=sp.first(bad)))
    if sphinx:
        check_sphinx(ctx, dotted, what, obj, w, rp, i1)


def check_sphinx(ctx, dotted, what, obj, w, rp, i1):
    try:
        from sigtools import sphinxext
    except Exception as e:
        ctx.count('C07.sphinxext_not_importable')
        return
    import sigtools
    ctx.count('C07.sphinx_hook_calls')
    sig0, ret0 = '(sig0)', 'ret0'
    try:
        got = sphinxext.process_signature(None, what, dotted, obj, {}, sig0, ret0)
    except RecursionError:
        ctx.violation('C07', 'Totality', RECURSION_MECH, 'unbounded recursion through the Sphinx hook', dict(w, hook=True), rp)
        return
    except Exception as e:
        if fabricates_attributes(obj):
            ctx.violation('C07', 'Totality', FABRICATE_MECH, 'the Sphinx hook raised on an attribute-fabricating object', dict(w, hook=True), rp)
        else:
            ctx.violation('C07', 'Totality', 'sphinx-hook-raises-%s' % type(e).__name__,
                          'process_signature raised %s for a documentable object: %s' % (type(e).__name__, e),
                          dict(w, exception=repr(e)[:300]), rp)
        return
    if got == (sig0, ret0):
        ctx.count('C07.sphinx_hook_passthrough')
        return
    if not (isinstance(got, tuple) and len(got) == 2 and all(isinstance(x, str) for x in got)):
        ctx.violation('C07', 'Totality', 'sphinx-hook-bad-result', 'process_signature returned %r' % (got,), w, rp)
        return
    ctx.count('C07.sphinx_hook_strings')
    # the hook documents the object fetched by dotted name, bound like a method when its parent is a class
    try:
        parent, fetched = sphinxext.fetch_dotted_name(dotted)
        if isinstance(parent, type) and callable(fetched):
            try:
                fetched = sphinxext._util.safe_get(fetched, object(), type(parent))
            except TypeError:
                pass
        ev = sigtools.signature(fetched).evaluated()
    except Exception:
        ctx.count('C07.sphinx_hook_reference_not_computable')
        return
    ra = ev.return_annotation
    want_ret = '' if ra is ev.empty else repr(ra)
    want_sig = str(ev.replace(return_annotation=ev.empty)) if ra is not ev.empty else str(ev)
    if got != (want_sig, want_ret):
        ctx.violation('C07', 'Totality', 'sphinx-hook-strings-differ',
                      'process_signature does not return the string forms of the evaluated signature',
                      dict(w, got=repr(got)[:300], expected=repr((want_sig, want_ret))[:300]), rp)


def run_corpus(ctx):
    names = module_names(ctx.tier)
    if ctx.tier == 'quick':
        # a seeded third of the modules, always including a fixed core
        rnd = ctx.rng('corpus-modules')
        core = [n for n in names if n.split('.')[0] in ('json', 'logging', 'argparse', 'functools', 'subprocess', 'inspect',
                                                        'contextlib', 'unittest', 'mock', 'attr', 'jinja2')]
        rest = [n for n in names if n not in core]
        rnd.shuffle(rest)
        names = core + rest[:len(rest) // 3]
    ctx.extra['corpus_modules_listed'] = len(names)
    imported = 0
    for i, name in enumerate(names):
        if not ctx.mine(i):
            continue
        if ctx.out_of_time('corpus modules'):
            break
        mod = safe_import(name)
        if mod is None:
            ctx.count('C07.modules_not_importable')
            continue
        imported += 1
        ctx.count('C07.modules')
        for dotted, what, obj in members(mod):
            try:
                check_callable(ctx, dotted, what, obj)
            except RecursionError:
                ctx.count('C07.harness_recursion')
    return imported


# ---------------------------------------------------------------- adversarial

ADV_PRELUDE = '''import functools, contextlib, asyncio
def target(x, y=1, *, z=2): return None
def sink(*a, **k): return None
'''

ADVERSARIAL = [
    ('async-def', 'async def f(a, *args, **kwargs):\n    return await asyncio.sleep(0, target(*args, **kwargs))'),
    ('async-for-with', 'async def f(a, *args, **kwargs):\n    async with contextlib.AsyncExitStack() as s:\n        pass\n    async for i in aiter_():\n        target(*args, **kwargs)'),
    ('generator', 'def f(a, *args, **kwargs):\n    yield target(*args, **kwargs)\n    yield from [1]'),
    ('walrus', 'def f(a, *args, **kwargs):\n    if (n := len(args)) > 10: return n\n    return target(*args, **kwargs)'),
    ('match', 'def f(a, *args, **kwargs):\n    match a:\n        case [x, *rest]:\n            return target(*args, **kwargs)\n        case {"k": v, **others}:\n            return v\n        case str() | int() as s:\n            return s\n        case _:\n            return target(*args, **kwargs)'),
    ('comprehensions', 'def f(a, *args, **kwargs):\n    return [target(*args, **kwargs) for i in range(2) if i], {i: i for i in args}, {i for i in kwargs}, (i for i in a)'),
    ('starred-calls', 'def f(a, *args, **kwargs):\n    return target(*a, *args, **{"z": 1}, **kwargs)'),
    ('global-nonlocal', 'G = 1\ndef f(a, *args, **kwargs):\n    global G\n    G = 2\n    def inner():\n        nonlocal a\n        a = 3\n    return target(*args, **kwargs)'),
    ('class-body', 'def f(a, *args, **kwargs):\n    class K(object):\n        attr = target(*args, **kwargs)\n        def m(self, *args, **kwargs): return target(*args, **kwargs)\n    return K'),
    ('decorated', '@functools.lru_cache(maxsize=None)\ndef f(a, *args, **kwargs):\n    return target(*args, **kwargs)'),
    ('decorated-wraps-chain', 'def d(fn):\n    @functools.wraps(fn)\n    def w(*args, **kwargs): return fn(*args, **kwargs)\n    return w\n@d\n@d\n@d\ndef f(a, *args, **kwargs):\n    return target(*args, **kwargs)'),
    ('lambda-assigned', 'f = lambda a, *args, **kwargs: target(*args, **kwargs)'),
    ('lambda-in-dict', 'TABLE = {\n    "k": lambda a, *args, **kwargs: target(*args, **kwargs),\n    "j": 1,\n}\nf = TABLE["k"]'),
    ('lambda-in-call', 'f = sink(1) or (lambda *args, **kwargs: target(*args, **kwargs))'),
    ('two-lambdas-one-line', 'f, g = (lambda *args, **kwargs: target(*args, **kwargs)), (lambda *a, **k: sink(*a, **k))'),
    ('nested-lambda-default', 'def f(a, *args, key=lambda *a, **k: target(*a, **k), **kwargs):\n    return key(*args, **kwargs)'),
    ('try-star', 'def f(a, *args, **kwargs):\n    try:\n        return target(*args, **kwargs)\n    except* ValueError as eg:\n        pass'),
    ('with-multiple', 'def f(a, *args, **kwargs):\n    with contextlib.nullcontext() as x, contextlib.nullcontext() as y:\n        return target(*args, **kwargs)'),
    ('type-params', 'def f[T](a: T, *args: T, **kwargs: T) -> T:\n    return target(*args, **kwargs)'),
    ('type-alias-stmt', 'def f(a, *args, **kwargs):\n    type X = int\n    return target(*args, **kwargs)'),
    ('self-forwarding', 'def f(n, *args, **kwargs):\n    if n: return f(n - 1, *args, **kwargs)\n    return target(*args, **kwargs)'),
    ('mutual-forwarding', 'def g(*args, **kwargs): return f(0, *args, **kwargs)\ndef f(n, *args, **kwargs):\n    return g(*args, **kwargs) if n else target(*args, **kwargs)'),
    ('unresolvable-name', 'def f(a, *args, **kwargs):\n    return undefined_function(*args, **kwargs)'),
    ('callee-is-builtin', 'def f(a, *args, **kwargs):\n    return print(*args, **kwargs)'),
    ('callee-is-class', 'class K(object):\n    def __init__(self, x, y=1): pass\ndef f(a, *args, **kwargs):\n    return K(*args, **kwargs)'),
    ('callee-is-type-without-signature', 'def f(a, *args, **kwargs):\n    return dict(*args, **kwargs)'),
    ('callee-attribute-of-arg', 'def f(a, *args, **kwargs):\n    return a.method(*args, **kwargs)'),
    ('callee-subscript', 'TABLE = [target]\ndef f(a, *args, **kwargs):\n    return TABLE[0](*args, **kwargs)'),
    ('callee-call-result', 'def get(): return target\ndef f(a, *args, **kwargs):\n    return get()(*args, **kwargs)'),
    ('callee-raises-on-getattr', 'class Bad(object):\n    def __getattr__(self, n): raise RuntimeError(n)\nbad = Bad()\ndef f(a, *args, **kwargs):\n    return bad.method(*args, **kwargs)'),
    ('semicolons-one-line', 'def f(a, *args, **kwargs): x = 1; return target(*args, **kwargs)'),
    ('line-continuation', 'def f(a, \\\n      *args, **kwargs):\n    return target(*args, \\\n                  **kwargs)'),
    ('docstring-and-annotations', 'def f(a: "int", *args: "str", **kwargs: "dict") -> "None":\n    """doc"""\n    return target(*args, **kwargs)'),
    ('deep-nesting', 'def f(a, *args, **kwargs):\n    def l1():\n        def l2():\n            def l3():\n                return target(*args, **kwargs)\n            return l3()\n        return l2()\n    return l1()'),
    ('partial-object-callee', 'P = functools.partial(target, 1)\ndef f(a, *args, **kwargs):\n    return P(*args, **kwargs)'),
    ('method-of-builtin', 'def f(a, *args, **kwargs):\n    return "".join(*args, **kwargs)'),
    ('staticmethod-classmethod', 'class K(object):\n    @staticmethod\n    def s(*args, **kwargs): return target(*args, **kwargs)\n    @classmethod\n    def c(cls, *args, **kwargs): return target(*args, **kwargs)\nf = K.s\nf2 = K.c\nf3 = K().c\nf4 = K.__dict__["s"]\nf5 = K.__dict__["c"]'),
    ('property-and-slots', 'class K(object):\n    __slots__ = ("v",)\n    @property\n    def p(self): return target\n    def __call__(self, *args, **kwargs): return self.p(*args, **kwargs)\nf = K()'),
    ('metaclass-call', 'class M(type):\n    def __call__(cls, *args, **kwargs): return super().__call__(*args, **kwargs)\nclass K(metaclass=M):\n    def __init__(self, x, y=1): pass\nf = K'),
    ('body-builds-partial-from-stars-only', 'def f(*args, **kwargs):\n    return functools.partial(*args, **kwargs)'),
    ('body-builds-partial-from-stars-only-imported-name', 'from functools import partial\ndef f(a, *args, **kwargs):\n    return partial(*args)'),
    ('body-builds-partial-of-param', 'def f(fn, *args, **kwargs):\n    return functools.partial(fn, *args, **kwargs)\nf2 = functools.partial(f, target)\nf3 = functools.partial(f, 5)'),
    ('partial-of-forwarder-unknown-keyword', 'def fwd(a, *args, **kwargs): return target(*args, **kwargs)\nf = functools.partial(fwd, zq=1)\nf2 = functools.partial(fwd, 0, zq=1)\nf3 = functools.partial(fwd, a=0)'),
    ('partial-of-forwarder-too-many-positionals', 'def fwd(a, *args, **kwargs): return target(*args, **kwargs)\nf = functools.partial(fwd, 1, 2, 3, 4)\nf2 = functools.partial(fwd, 1, 2, 3, 4, 5, z=1)'),
    ('partial-of-forwarder-duplicate', 'def fwd(a, *args, **kwargs): return target(*args, **kwargs)\nf = functools.partial(fwd, 1, 2, x=3)\nf2 = functools.partial(functools.partial(fwd, 1, 2), x=3)'),
    ('partial-with-too-many-positionals-no-varargs', 'def h(a, **kwargs): return target(**kwargs)\nf = functools.partial(h, 1, 2)\ndef h2(a): return None\nf2 = functools.partial(h2, 1, 2)\nf3 = functools.partial(h2, b=1)'),
    ('partial-of-partial-of-forwarder', 'def fwd(a, *args, **kwargs): return target(*args, **kwargs)\nf = functools.partial(functools.partial(fwd, 1), 2, z=3)\nf2 = functools.partial(functools.partial(fwd, z=3), z=4)'),
    ('bound-method-stars-only', 'def kwo(*, k): return None\nclass K(object):\n    def m(*args, **kwargs): return kwo(**kwargs)\n    def n(*args, **kwargs): return target(*args, **kwargs)\nf = K().m\nf2 = K().n\nf3 = K.m'),
    ('unhashable-callable-instance', 'class K(object):\n    __hash__ = None\n    def __call__(self, a): return None\nf = K()'),
    ('unhashable-callable-instance-forwarding', 'class K(object):\n    def __eq__(self, other): return True\n    def __call__(self, a, *args, **kwargs): return target(*args, **kwargs)\nf = K()'),
    ('callable-instance-in-partial', 'class K(object):\n    def __call__(self, a, *args, **kwargs): return target(*args, **kwargs)\nf = functools.partial(K(), 1)\nf2 = functools.partial(K(), 1, 2, 3, 4)'),
    ('partialmethod', 'class K(object):\n    def m(self, a, *args, **kwargs): return target(*args, **kwargs)\n    pm = functools.partialmethod(m, 1)\n    pm2 = functools.partialmethod(m, 1, 2, 3, 4)\nf = K().pm\nf2 = K.pm\nf3 = K().pm2'),
    ('singledispatch-and-cache', '@functools.singledispatch\ndef f(a, *args, **kwargs): return target(*args, **kwargs)\n@functools.cache\ndef f2(a, *args, **kwargs): return target(*args, **kwargs)'),
    ('class-forwarding-init', 'class B(object):\n    def __init__(self, x, y=1): pass\nclass K(B):\n    def __init__(self, a, *args, **kwargs): super().__init__(*args, **kwargs)\nf = K\nclass K2(B):\n    def __new__(cls, *args, **kwargs): return super().__new__(cls)\nf2 = K2'),
    ('callee-needs-nothing-but-gets-positional', 'def nothing(): return None\ndef f(a, *args, **kwargs):\n    return nothing(1, *args, **kwargs)\ndef f2(a, *args, **kwargs):\n    return nothing(*args, q=1, **kwargs)'),
    ('two-incompatible-callees', 'def c1(x, /): return None\ndef c2(*, x): return None\ndef f(*args, **kwargs):\n    c1(*args, **kwargs)\n    return c2(*args, **kwargs)'),
    ('forwarding-to-own-parameter-default', 'def f(a, *args, fn=target, **kwargs):\n    return fn(*args, **kwargs)\nf2 = functools.partial(f, 1)\nf3 = functools.partial(f, 1, fn=sink)'),
    ('annotation-unevaluable-postponed', 'from __future__ import annotations\ndef callee(x: NotDefinedAnywhere, y: AlsoNot = 1) -> Nope: return None\ndef f(a, *args, **kwargs):\n    return callee(*args, **kwargs)\ndef f2(a, *args, **kwargs):\n    return callee(0, *args, y=2, **kwargs)\ndef f3(a, *args, **kwargs):\n    return callee(*args, y=2, **kwargs)'),
    ('nested-def-with-required-keyword-only', 'def f(a, *args, **kwargs):\n    def inner(x, *, q, r=1): return q\n    lam = lambda y=2, *, k: k\n    async def co(*, z): return z\n    return target(*args, **kwargs)'),
    ('nested-def-with-defaults-and-decorators', 'def f(a, *args, **kwargs):\n    @functools.lru_cache(maxsize=None)\n    def inner(x=len(args), *more, q=sink(1), **kw): return x\n    class K(object):\n        def m(self, *, k, j=2): return k\n    return target(*args, **kwargs)'),
    ('nested-def-posonly-and-annotations', 'def f(a, *args, **kwargs):\n    def inner(x: int, /, y: "str" = 1, *v: int, k: int, **w: int) -> None: return None\n    return target(*args, **kwargs)'),
    ('exec-defined-no-source', None),
    ('builtins', None),
]


ADV_NOT_COMPILED = []


def adversarial_objects():
    out = []
    del ADV_NOT_COMPILED[:]
    for label, src in ADVERSARIAL:
        if src is None:
            continue
        head = ''
        if src.startswith('from __future__'):
            head, src = src.split('\n', 1)
            head += '\n'
        # every source twice: as an imported module (its __builtins__ global is a dict) and as the __main__
        # module of a script / interactive session (there it is the builtins module itself)
        for where, globs in (('', None), (':as-main', {'__builtins__': builtins, '__name__': '__main__'})):
            try:
                g = sigs.compile_module(head + ADV_PRELUDE + src, globs=globs, tag='vadv')
            except SyntaxError:
                ADV_NOT_COMPILED.append(label)
                break
            for name in ('f', 'f2', 'f3', 'f4', 'f5', 'g'):
                if name in g and callable(g[name]) or name in g and isinstance(g[name], (staticmethod, classmethod)):
                    out.append(('adv:%s:%s%s' % (label, name, where), g[name]))
    # functions without source
    ns = {}
    exec('def nosrc(a, *args, **kwargs):\n    return len(*args, **kwargs)\nnosrc_l = lambda *a, **k: len(*a, **k)', ns)
    out.append(('adv:exec-defined-no-source:def', ns['nosrc']))
    out.append(('adv:exec-defined-no-source:lambda', ns['nosrc_l']))
    for b in (len, print, dict, dict.get, {}.get, str.join, object, type, int, classmethod, staticmethod, property,
              functools.partial, functools.partial(len), functools.partial(print, 1, sep=''), types.FunctionType,
              list.append, [].append, object.__init__, object().__init__, type.__call__, io.StringIO, os.path.join,
              isinstance, getattr, max, range, zip, map, super, Exception, ValueError('x').with_traceback):
        out.append(('adv:builtin:%s' % fname(b), b))
    return out


def build_partial(kind, params, npos, kws, tag=0):
    if kind == 'function':
        target = sigs.make_func(params, name='pf%d' % tag)
    else:
        first = (('self', PO if sigs.has_kind(params, PO) else PK, None, None),)
        f = sigs.make_func(first + tuple(params), name='pf%d' % tag)
        K = type('PK%d' % tag, (object,), {{'method': 'm', 'class': '__init__', 'instance': '__call__'}[kind]: f})
        target = {'method': lambda: K().m, 'class': lambda: K, 'instance': lambda: K()}[kind]()
    return functools.partial(target, *([0] * npos), **{k: 1 for k in kws})


def run_generated_partials(ctx):
    """functools.partial objects over generated functions, bound methods, classes and callable instances: every
    count of bound positionals up to one too many, keyword sets of up to three names in every order (a keyword
    nobody declares included).  Where the binding is impossible inspect.signature raises; sigtools must too."""
    rnd = ctx.rng('c07-partials')
    n = {'quick': 600, 'thorough': 60000}[ctx.tier] // max(1, ctx.nshards)
    for i in range(n):
        if ctx.out_of_time('generated partial objects'):
            break
        params = sigs.pick_stratified(rnd, ('a', 'b', 'c', 'd'), 4, sigs.STARS2[:1])
        kind = rnd.choice(('function', 'function', 'method', 'class', 'instance'))
        names = [p[0] for p in params if p[1] not in (VA, VK)] + ['zq']
        cap = sigs.positional_capacity(params)
        for _ in range(3):
            npos = rnd.randint(0, cap + 1)
            kws = rnd.sample(names, rnd.randint(0, min(3, len(names))))
            ctx.count('C07.generated_partials')
            label = 'gen-partial:%s(%s):%d:%s' % (kind, sigs.render(params), npos, ','.join(kws))
            check_callable(ctx, label, 'function', build_partial(kind, params, npos, kws, i), sphinx=False,
                           rp=dict(workload='gen-partial', kind=kind, params=sigs.to_json(params), npos=npos, kws=kws))


def run_adversarial(ctx):
    objs = adversarial_objects()
    if ADV_NOT_COMPILED:
        ctx.inconclusive.append('adversarial sources that do not compile: %s' % ', '.join(ADV_NOT_COMPILED))
    for label, obj in objs:
        ctx.count('C07.adversarial_objects')
        try:
            check_callable(ctx, label, 'function', obj, sphinx=False, rp=dict(workload='adversarial', label=label))
        except RecursionError:
            ctx.count('C07.harness_recursion')


def replay(ctx, rec):
    if rec.get('workload') == 'gen-partial':
        obj = build_partial(rec['kind'], sigs.from_json(rec['params']), rec['npos'], rec['kws'])
        check_callable(ctx, 'gen-partial', 'function', obj, sphinx=False, rp=rec)
        return
    if rec.get('workload') == 'adversarial':
        for label, obj in adversarial_objects():
            if label == rec['label']:
                check_callable(ctx, label, 'function', obj, sphinx=False, rp=rec)
        return
    from sigtools import sphinxext
    dotted = rec['dotted']
    parent, obj = None, None
    parts = dotted.split('.')
    for i in range(len(parts) - 1, 0, -1):
        mod = safe_import('.'.join(parts[:i]))
        if mod is not None:
            obj = mod
            try:
                for p in parts[i:]:
                    obj = getattr(obj, p)
            except AttributeError:
                continue
            break
    if obj is not None:
        check_callable(ctx, dotted, 'function', obj)

"""W-SUITE: the repository's own tests as a workload.  The tests are run in-process
(unittest loader; the four fixture modules that do not collect under pytest included)
while the monitors of the property under check are attached to the real functions: every
merge / embed / mask / forwards / retrieval the tests perform is decided by the same
oracles as the generated workloads.  The tests' own verdicts are only counted."""
import io
import unittest

MODULES = ['test_merge', 'test_embed', 'test_mask', 'test_forwards', 'test_signatures', 'test_autoforwards',
           'test_specifiers', 'test_modifiers', 'test_decorator', 'test_wrapper_decorator', 'test_combination',
           'test_support', 'test_testutil']


def run(ctx):
    import warnings
    loader = unittest.TestLoader()
    total = failed = 0
    for name in MODULES:
        if ctx.out_of_time('repository tests'):
            break
        try:
            suite = loader.loadTestsFromName('sigtools.tests.' + name)
        except Exception:
            ctx.count('suite.modules_not_loadable')
            continue
        with warnings.catch_warnings():
            warnings.simplefilter('ignore')
            res = unittest.TextTestRunner(stream=io.StringIO(), verbosity=0).run(suite)
        total += res.testsRun
        failed += len(res.failures) + len(res.errors)
        ctx.count('suite.modules')
    ctx.count('suite.tests_run', total)
    ctx.count('suite.tests_failed_or_errored', failed)
    ctx.extra['repository_tests_run_under_monitors'] = ctx.extra.get('repository_tests_run_under_monitors', 0) + total


def maybe(ctx):
    """Thorough tier, first shard only (the tests are deterministic: once is enough)."""
    if ctx.tier == 'thorough' and ctx.shard == 0:
        saved = ctx.deadline
        import time
        ctx.deadline = ctx.clock() + 240
        try:
            run(ctx)
        finally:
            ctx.deadline = saved

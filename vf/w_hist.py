"""W-HIST (C18): order independence of modifier application, and histories over
objects that use the descriptor cache / forger wrappers / _SimpleWrapped /
_Wrapped, with weak references observing reclamation."""
import gc
import inspect
import itertools
import weakref

from . import sigs, oracle, w_mod
from . import core
from .sigs import PO, PK, VA, KO, VK
from .sigutil import sources_view


def V(ctx, mech, what, w, rp):
    ctx.violation('C18', 'HistoryMonitor', mech, what, w, rp)


# ------------------------------------------------------------------- order

def step_sets(fparams, rnd):
    """A few multisets of modifier steps that are jointly admissible in at
    least one order."""
    pk = [p[0] for p in fparams if p[1] == PK]
    named = [p[0] for p in fparams if p[1] in (PO, PK, KO)]
    out = []
    if not pk:
        return out
    for _ in range(3):
        steps = []
        npo = rnd.randint(0, len(pk))
        po = pk[:npo] if rnd.random() < 0.6 else []
        rest = [n for n in pk if n not in po]
        kw = [n for n in rest if rnd.random() < 0.5]
        if po:
            if rnd.random() < 0.5:
                steps.append(('posoargs(%s)' % ', '.join(map(repr, po)), set(), set(po)))
            else:
                steps.append(('posoargs(end=%r)' % po[-1], set(), set(po)))
        if kw:
            if len(kw) > 1 and rnd.random() < 0.5:
                steps.append(('kwoargs(%r)' % kw[0], {kw[0]}, set()))
                steps.append(('kwoargs(%s)' % ', '.join(map(repr, kw[1:])), set(kw[1:]), set()))
            else:
                steps.append(('kwoargs(%s)' % ', '.join(map(repr, kw)), set(kw), set()))
        if rnd.random() < 0.35:
            defaulted = {p[0] for p in fparams if p[1] == PK and p[2] is not None and p[0] not in po}
            exc = sorted(defaulted)[:1] if defaulted and rnd.random() < 0.5 else []
            if exc:
                steps.append(('autokwoargs(exceptions=%r)' % (exc,), defaulted - set(exc), set()))
            else:
                steps.append(('autokwoargs', defaulted, set()))
        if named and rnd.random() < 0.7:
            an = rnd.sample(named, rnd.randint(1, min(2, len(named))))
            steps.append(('annotate(%s)' % ', '.join('%s=%r' % (n, 'A_' + n) for n in an), set(), set(), tuple(an)))
        if named and rnd.random() < 0.2:
            steps.append(('annotate(%r)' % 'RET', set(), set(), ()))
        if 2 <= len(steps) <= 4:
            out.append(steps)
    return out


@core.guarded(lambda fparams, steps: dict(workload='order', fparams=sigs.to_json(fparams), steps=[s[0] for s in steps]))
def check_orders(ctx, fparams, steps):
    """Every permutation of `steps`: admissible orders must agree on both
    signatures and on behaviour; and agree with the native reference."""
    import sigtools
    ctx.evaluated()
    ctx.count('C18.step_sets')
    results = []
    rp = dict(workload='order', fparams=sigs.to_json(fparams), steps=[s[0] for s in steps])
    w = {'function': 'def f(%s)' % sigs.render(fparams), 'steps': [s[0] for s in steps]}
    mk = set().union(*[s[1] for s in steps])
    mp = set().union(*[s[2] for s in steps])
    anns = {}
    ret = None
    for s in steps:
        if len(s) > 3:
            for n in s[3]:
                anns[n] = repr('A_' + n)
            if not s[3]:
                ret = repr('RET')
    exp = []
    for n, k, d, a in w_mod.expected_params(fparams, mk, mp):
        exp.append((n, k, d, anns.get(n, a)))
    exp = tuple(exp)
    sp = None
    # in half of the step sets the decorator OBJECTS are made once and used again for every order
    # (a decorator may be applied any number of times)
    shared = None
    if (sum(map(len, (s[0] for s in steps))) + len(fparams)) % 2 == 0:
        from sigtools import modifiers as _m
        try:
            shared = [eval('modifiers.' + s[0], {'modifiers': _m}) for s in steps]
            w['decorator_objects_shared_by_all_orders'] = True
            ctx.count('C18.step_sets_with_shared_decorator_objects')
        except Exception:
            shared = None
    for perm in itertools.permutations(range(len(steps))):
        deco = ['@modifiers.%s' % steps[i][0] for i in reversed(perm)]     # first applied = innermost = last line
        if shared is not None:
            deco = ['@_D[%d]' % i for i in reversed(perm)]
        try:
            g, ref, ns = w_mod.build_pair(fparams, deco, exp, extra_globals={'_D': shared} if shared is not None else None)
        except ValueError:
            ctx.count('C18.inadmissible_orders')
            continue
        except Exception as e:
            V(ctx, 'order-decoration-raises-%s' % type(e).__name__, 'applying the modifiers raised %s' % type(e).__name__,
              dict(w, order=[steps[i][0] for i in perm], exception=repr(e)), rp)
            continue
        ctx.count('C18.admissible_orders')
        try:
            s1 = sigtools.signature(g)
            s2 = inspect.signature(g)
        except Exception as e:
            V(ctx, 'order-retrieval-raises', 'retrieval raised %s after applying modifiers' % type(e).__name__,
              dict(w, order=[steps[i][0] for i in perm], exception=repr(e)), rp)
            continue
        if sp is None:
            bp = sigs.shape_key(exp)
            sp = oracle.Space.get(sigs.positional_capacity(bp) + 2, set(sigs.names_of(bp)) | {oracle.FOREIGN})
            skip = 0
            if sigs.has_kind(bp, VK):
                skip = sp.full & ~sp.without_keywords({p[0] for p in bp if p[1] == PO})
        beh = w_mod.behaviour(g, sp, skip)
        results.append((perm, w_mod.sig_meta(s1), w_mod.sig_meta(s2), s1.return_annotation, beh, str(s1)))
    if len(results) >= 2:
        ctx.nontrivial((sigs.shape_key(fparams), tuple(s[0] for s in steps)))
        ctx.sample('order', lambda: dict(w, admissible_orders=len(results), signature=results[0][5]), limit=3)
    if not results:
        return
    p0, m0, i0, r0, b0, t0 = results[0]
    for perm, m, i, r, b, t in results[1:]:
        if not w_mod.same_meta(m, m0) or not w_mod.same_meta(i, i0) or r != r0:
            V(ctx, 'order-changes-signature', 'two admissible application orders give different signatures',
              dict(w, order_a=[steps[k][0] for k in p0], sig_a=t0, order_b=[steps[k][0] for k in perm], sig_b=t), rp)
            break
        if b != b0:
            V(ctx, 'order-changes-behaviour', 'two admissible application orders give different call behaviour',
              dict(w, order_a=[steps[k][0] for k in p0], order_b=[steps[k][0] for k in perm]), rp)
            break
    # the same steps on a METHOD, looked up through an instance (twice): every order that is admissible for the
    # function is admissible there, and the bound method advertises and accepts what the function does
    # (posoargs with explicit names cannot be applied to a method without naming its instance parameter too)
    if (len(fparams) + len(steps)) % 2 == 0 and not any(q[0] == 'self' for q in fparams) \
            and not any(st[0].startswith("posoargs('") for st in steps):
        mparams = (('self', PO if sigs.has_kind(fparams, PO) else PK, None, None),) + tuple(fparams)
        mexp = (('self', PO if sigs.has_kind(exp, PO) else PK, None, None),) + tuple(exp)
        for perm, m, i, r, b, t in results:
            deco = ['@modifiers.%s' % steps[k][0] for k in reversed(perm)]
            ctx.count('C18.orders_on_methods')
            try:
                g, ref, ns = w_mod.build_pair(mparams, deco, mexp, method=True)
                g2 = getattr(type(g.__self__)(), g.__func__.__name__) if hasattr(g, '__func__') else g
                ms = w_mod.sig_meta(sigtools.signature(g))
                mi = w_mod.sig_meta(inspect.signature(g))
                mb = w_mod.behaviour(g, sp, skip)
            except Exception as e:
                V(ctx, 'order-on-method-raises-%s' % type(e).__name__,
                  'an order of steps that is admissible on the function raises %s when the function is a method looked up through an instance: %s' % (type(e).__name__, e),
                  dict(w, order=[steps[k][0] for k in perm]), rp)
                break
            if not w_mod.same_meta(ms, m) or not w_mod.same_meta(mi, i):
                V(ctx, 'order-on-method-changes-signature', 'the bound method advertises another signature than the function after the same steps',
                  dict(w, order=[steps[k][0] for k in perm], function=t, method=str(sigtools.signature(g))), rp)
                break
            if [x == 'T' for x in mb if x is not None] != [x == 'T' for x in b if x is not None]:
                V(ctx, 'order-on-method-changes-acceptance', 'the bound method accepts other calls than the function after the same steps',
                  dict(w, order=[steps[k][0] for k in perm]), rp)
                break
    # annotate is reflected in what the modifier advertises (compare with the reference)
    want = [(n, k, (inspect.Parameter.empty if d is None else eval(d)), (inspect.Parameter.empty if a is None else eval(a)))
            for n, k, d, a in exp]
    if not w_mod.same_meta(m0, want) or not w_mod.same_meta(i0, want):
        V(ctx, 'order-result-differs-from-reference', 'the advertised signature after the steps differs from the expected one',
          dict(w, got=t0, expected='(%s)' % sigs.render(exp)), rp)
    if ret is not None and r0 != 'RET':
        V(ctx, 'annotate-return-lost', 'the return annotation given to annotate is not advertised', dict(w, got=t0), rp)


def run_orders(ctx):
    rnd = ctx.rng('orders')
    U = [p for p in sigs.U(('a', 'b', 'c'), 3, stars=sigs.STARS2[:1]) if any(x[1] == PK for x in p)]
    n = {'quick': 400, 'thorough': 30000}[ctx.tier] // ctx.nshards
    for _ in range(n):
        if ctx.out_of_time('modifier orders'):
            break
        f = w_mod.with_meta(rnd, rnd.choice(U))
        for steps in step_sets(f, rnd):
            check_orders(ctx, f, steps)


# --------------------------------------------------------------- histories

KINDS = {
    'modifier-method': '''
from sigtools import modifiers
class A(object):
    def __len__(self): return 0          # instances are falsy
    @modifiers.kwoargs('b')
    def m(self, a, b=2): return (self, a, b)
class S(A): pass
ARGS = ((1,), {'b': 5})
''',
    # instances that compare and hash equal (value objects, frozen dataclasses): whatever is remembered per instance
    # must be remembered by identity, or one instance's bound copy is handed to the other
    'modifier-method-value-equal': '''
from sigtools import modifiers
class A(object):
    def __eq__(self, other): return isinstance(other, A)
    def __ne__(self, other): return not isinstance(other, A)
    def __hash__(self): return 7
    @modifiers.kwoargs('b')
    def m(self, a, b=2): return (self, a, b)
class S(A): pass
ARGS = ((1,), {'b': 5})
''',
    'posoargs-autokwoargs-method': '''
from sigtools import modifiers
class A(object):
    @modifiers.autokwoargs
    @modifiers.posoargs(end='a')
    def m(self, a, b=2, c=3): return (self, a, b, c)
class S(A): pass
ARGS = ((1,), {'c': 5})
''',
    # a range form stacked over a name form it overlaps: what the outer layer selects depends on what the inner
    # one advertises, on the class and on every instance alike
    'posoargs-end-over-kwoargs-method': '''
from sigtools import modifiers
class A(object):
    @modifiers.posoargs(end='b')
    @modifiers.kwoargs('a')
    def m(self, a, b, c=3): return (self, a, b, c)
class S(A): pass
ARGS = ((1,), {'a': 5})
''',
    'kwoargs-start-over-posoargs-method': '''
from sigtools import modifiers
class A(object):
    def __len__(self): return 0          # instances are falsy
    @modifiers.kwoargs(start='c')
    @modifiers.posoargs(end='a')
    def m(self, a, b, c=3, d=4): return (self, a, b, c, d)
class S(A): pass
ARGS = ((1, 2), {'d': 5})
''',
    'forger-method-emulate': '''
from sigtools import specifiers
class A(object):
    def target(self, x, y=1): return (x, y)
    @specifiers.forwards_to_method('target', emulate=True)
    def m(self, a, *args, **kwargs): return (self, a, self.target(*args, **kwargs))
class S(A): pass
ARGS = ((1, 2), {'y': 5})
''',
    'forger-method-attribute': '''
from sigtools import specifiers
class A(object):
    def __len__(self): return 0          # instances are falsy
    def target(self, x, y=1): return (x, y)
    @specifiers.forwards_to_method('target')
    def m(self, a, *args, **kwargs): return (self, a, self.target(*args, **kwargs))
class S(A): pass
ARGS = ((1, 2), {'y': 5})
''',
    'forger-method-on-container': '''
from sigtools import specifiers
class A(object):
    # a container: falsy while empty, truthy once a call has put something in
    def __init__(self): self.items = []
    def __len__(self): return len(self.items)
    def target(self, x, y=1): return (x, y)
    @specifiers.forwards_to_method('target')
    def m(self, a, *args, **kwargs):
        self.items.append(a)
        return (self, a, getattr(self, 'tar' + 'get')(*args, **kwargs))
class S(A): pass
ARGS = ((1, 2), {'y': 5})
''',
    'forwards-to-super-emulate': '''
from sigtools import specifiers
class B(object):
    def m(self, x, y=1): return (self, x, y)
class A(B):
    def __len__(self): return 0          # instances are falsy
    @specifiers.forwards_to_super(emulate=True)
    def m(self, a, *args, **kwargs): return (self, a, super().m(*args, **kwargs))
class S(A): pass
ARGS = ((1, 2), {'y': 5})
''',
    'decorator-method': '''
from sigtools import wrappers
@wrappers.decorator
def d(func, *args, opt=False, **kwargs): return ('d', opt, func(*args, **kwargs))
class A(object):
    @d
    def m(self, x, y=1): return (self, x, y)
class S(A): pass
ARGS = ((1,), {'opt': True})
''',
    'wrapper-decorator-method': '''
from sigtools import wrappers
@wrappers.wrapper_decorator
def d(func, *args, opt=False, **kwargs): return ('d', opt, func(*args, **kwargs))
class A(object):
    @d
    def m(self, x, y=1): return (self, x, y)
class S(A): pass
ARGS = ((1,), {'y': 3})
''',
    'modifier-on-forwarding-method': '''
from sigtools import modifiers
def inner(x, y=1): return (x, y)
class A(object):
    @modifiers.kwoargs('b')
    def m(self, a, b=2, *args, **kwargs): return (self, a, b, inner(*args, **kwargs))
class S(A): pass
ARGS = ((1, 7), {'b': 5})
''',
}

ALPHABET = ['R1', 'R2', 'B1', 'B2', 'C1', 'C2', 'X1', 'X2', 'RC', 'RS', 'N1', 'I1', 'D', 'F1', 'F2', 'A1', 'A2']
# R<i> retrieve on instance i    B<i> bind on instance i and keep the bound object
# C<i> call through instance i   X<i> drop instance i (+ everything obtained from it) and gc.collect()
# RC retrieve through the class  RS retrieve on an instance of the subclass
# N<i> replace instance i by a fresh one   I1 inspect.signature on instance 1   D re-decorate (annotate)
# A<i> retrieve on instance i without automatic discovery (auto=False: only what was declared counts)
# F<i> a retrieval on instance i that FAILS: one of the calls it makes into code outside sigtools raises
#      (failpoint injector of W-FAULT); the outcome is discarded -- what follows must be unaffected


TARGETED = [['A1', 'C1', 'A1', 'A2'], ['A2', 'C1', 'A1', 'R1', 'I1'], ['B1', 'D', 'R1', 'R2'], ['R1', 'D', 'R1', 'I1', 'R2'], ['C1', 'D', 'R2', 'R1'], ['B1', 'B2', 'D', 'D', 'R2', 'R1'],
            ['R1', 'D', 'RS', 'R1', 'RC'], ['B1', 'D', 'C1', 'R1'], ['B1', 'F1', 'D', 'R1', 'R2'], ['I1', 'D', 'I1', 'X1', 'R2'],
            # a lookup through the CLASS between the bindings on two instances, then the re-decoration
            ['B1', 'RC', 'B2', 'D', 'R2', 'R1'], ['RC', 'B1', 'B2', 'D', 'R1', 'R2'], ['B1', 'B2', 'RC', 'D', 'R2', 'R1', 'RC'],
            ['R1', 'RC', 'B2', 'D', 'D', 'R2'],
            # two instances alive at once, each bound and called after the other was
            ['B1', 'B2', 'C2', 'C1'], ['C1', 'C2', 'B2', 'B1'], ['B1', 'C2', 'B2', 'C1', 'X1', 'C2'], ['R1', 'B2', 'C2', 'N1', 'C1', 'C2']]


_PRISTINE = {}


def pristine(kind, label, annotated):
    """What the access `label` returns on a freshly compiled copy of the classes of `kind`
    after `annotated` re-decorations and nothing else."""
    import sigtools
    key = (kind, label, annotated)
    if key not in _PRISTINE:
        try:
            ns = sigs.compile_module(KINDS[kind], tag='vhistp')
            A = ns['A']
            for k in range(annotated):
                from sigtools import modifiers
                modifiers.annotate(a='again%d' % k)(A.__dict__['m'])
            if label == 'instance':
                r = render_sig(sigtools.signature(A().m))
            elif label == 'instance-inspect':
                r = render_sig(inspect.signature(A().m))
            elif label == 'instance-noauto':
                r = render_sig(sigtools.signature(A().m, auto=False))
            elif label == 'class':
                r = render_sig(sigtools.signature(A.m))
            else:
                r = None
        except Exception:
            r = None
        _PRISTINE[key] = r
    return _PRISTINE[key]


def render_sig(sig):
    return str(sig)


def find_self(ret, inst):
    """Does the value returned by the method contain `inst` as received self?"""
    if ret is inst:
        return True
    if isinstance(ret, tuple):
        return any(find_self(x, inst) for x in ret)
    return False


@core.guarded(lambda kind, history: dict(workload='history', kind=kind, history=list(history)))
def run_history(ctx, kind, history):
    import sigtools
    ns = sigs.compile_module(KINDS[kind], tag='vhist')
    A, S = ns['A'], ns['S']
    args, kwargs = ns['ARGS']
    inst = {1: A(), 2: A()}
    held = {1: [], 2: []}
    first = {}
    rp = dict(workload='history', kind=kind, history=list(history))
    w = {'kind': kind, 'history': list(history)}
    ctx.evaluated()
    ctx.count('C18.histories')
    annotated = 0

    def observe(label, sig):
        ctx.count('C18.retrievals')
        key = (label, annotated)
        r = render_sig(sig)
        if key in first:
            if first[key] != r:
                V(ctx, 'retrieval-depends-on-history', 'a retrieval gives another result than the first one on the same kind of access',
                  dict(w, access=label, first=first[key], now=r), rp)
        else:
            first[key] = r
        # ... and the answer a pristine copy of the same classes gives when this access is the
        # very first thing that happens to it (no earlier retrieval, binding, call or fault)
        want = pristine(kind, label, annotated)
        if want is not None:
            ctx.count('C18.compared_with_pristine')
            if want != r:
                V(ctx, 'retrieval-differs-from-pristine', 'a retrieval inside a history gives another result than the same access on a pristine copy of the classes',
                  dict(w, access=label, pristine=want, now=r), rp)

    for step_no, op in enumerate(history):
        try:
            if op[0] == 'R' and op[1] in '12':
                i = int(op[1])
                if inst[i] is None:
                    continue
                observe('instance', sigtools.signature(inst[i].m))
            elif op[0] == 'A':
                i = int(op[1])
                if inst[i] is None:
                    continue
                observe('instance-noauto', sigtools.signature(inst[i].m, auto=False))
            elif op == 'I1':
                if inst[1] is None:
                    continue
                observe('instance-inspect', inspect.signature(inst[1].m))
            elif op == 'RC':
                observe('class', sigtools.signature(A.m))
            elif op == 'RS':
                s = S()
                observe('instance', sigtools.signature(s.m))
                r = weakref.ref(s)
                del s
                gc.collect()
                ctx.count('C18.reclamation_checks')
                if r() is not None:
                    V(ctx, 'instance-kept-alive', 'an instance whose method was touched is not reclaimed after the last reference is dropped',
                      dict(w, at_step=step_no, instance='subclass instance'), rp)
            elif op[0] == 'B':
                i = int(op[1])
                if inst[i] is None:
                    continue
                b = inst[i].m
                ctx.count('C18.bindings')
                owner = getattr(b, '__self__', None)
                if owner is not None and owner is not inst[i]:
                    V(ctx, 'bound-to-wrong-instance', 'attribute access returned an object bound to another instance',
                      dict(w, at_step=step_no), rp)
                held[i].append(b)
                del owner
            elif op[0] == 'C':
                i = int(op[1])
                if inst[i] is None:
                    continue
                ctx.count('C18.calls')
                ret = inst[i].m(*args, **kwargs)
                if not find_self(ret, inst[i]) or find_self(ret, inst[3 - i] if inst[3 - i] is not None else object()):
                    V(ctx, 'call-received-wrong-self', 'a call through one instance was executed with another instance as self',
                      dict(w, at_step=step_no), rp)
                del ret
                for b in held[i]:
                    ret = b(*args, **kwargs)
                    if not find_self(ret, inst[i]):
                        V(ctx, 'held-bound-object-wrong-self', 'a bound object taken earlier runs with another self',
                          dict(w, at_step=step_no), rp)
                    del ret
            elif op[0] == 'X':
                i = int(op[1])
                if inst[i] is None:
                    continue
                r = weakref.ref(inst[i])
                inst[i] = None
                held[i] = []
                b = None
                gc.collect()
                ctx.count('C18.reclamation_checks')
                if r() is not None:
                    V(ctx, 'instance-kept-alive', 'an instance whose method was touched is not reclaimed after the last reference is dropped',
                      dict(w, at_step=step_no, instance=i), rp)
            elif op[0] == 'N':
                i = int(op[1])
                inst[i] = A()
                held[i] = []
            elif op[0] == 'F':
                i = int(op[1])
                if inst[i] is None:
                    continue
                from . import w_fault
                INJ = w_fault.INJ
                INJ.install()
                retr = inspect.signature if (step_no + len(history)) % 2 else sigtools.signature
                target_inst = inst[i]
                opf = lambda: retr(target_inst.m)
                out, sites = INJ.passive(opf)
                if out[0] == 'ret':
                    observe('instance-inspect' if retr is inspect.signature else 'instance', out[1])
                if sites:
                    k = 1 + (step_no * 7 + len(history) * 3 + len(kind)) % len(sites)
                    exc = w_fault.EXC_CLASSES[(step_no + len(history)) % len(w_fault.EXC_CLASSES)]
                    out, fired = INJ.inject(opf, k, exc)
                    ctx.count('C18.faulted_retrievals')
                    if out[0] == 'raise':
                        ctx.count('C18.faulted_retrievals_raised')
                out = opf = target_inst = None
                INJ.uninstall()
            elif op == 'D':
                from sigtools import modifiers
                if kind.startswith('modifier') or kind.startswith('posoargs'):
                    modifiers.annotate(a='again%d' % annotated)(A.__dict__['m'])
                    annotated += 1
        except Exception as e:
            V(ctx, 'history-step-raises-%s' % type(e).__name__, 'step %r of a history raised %s: %s' % (op, type(e).__name__, e),
              dict(w, at_step=step_no), rp)
            return
    # end of history: drop everything, nothing may survive
    refs = [weakref.ref(x) for x in inst.values() if x is not None]
    inst.clear()
    held.clear()
    b = None
    gc.collect()
    for r in refs:
        ctx.count('C18.reclamation_checks')
        if r() is not None:
            V(ctx, 'instance-kept-alive', 'an instance whose method was touched is not reclaimed after the last reference is dropped',
              dict(w, at_step='end'), rp)
            break
    ctx.nontrivial((kind, tuple(history)))
    ctx.sample('history', lambda: dict(w, distinct_access_kinds=sorted(k[0] for k in first)), limit=3)


def run_histories(ctx):
    rnd = ctx.rng('histories')
    kinds = sorted(KINDS)
    if ctx.tier == 'thorough':
        letters = ['R1', 'B1', 'C1', 'X1', 'R2', 'F1']
        idx = 0
        done = True
        for L in range(1, 6):
            for h in itertools.product(letters, repeat=L):
                idx += 1
                if not ctx.mine(idx):
                    continue
                if ctx.out_of_time('enumerated histories'):
                    done = False
                    break
                for kind in kinds:
                    run_history(ctx, kind, h)
        ctx.exhaustive['histories of length <= 5 over {R1,B1,C1,X1,R2,F1} x %d object kinds' % len(kinds)] = done
    else:
        letters = ['R1', 'B1', 'C1', 'X1', 'F1']
        idx = 0
        for L in range(1, 4):
            for h in itertools.product(letters, repeat=L):
                idx += 1
                if ctx.mine(idx):
                    for kind in kinds:
                        run_history(ctx, kind, h)
        ctx.exhaustive['histories of length <= 3 over {R1,B1,C1,X1,F1} x %d object kinds' % len(kinds)] = True
    # histories around a re-decoration (annotate applied to the class-level object while bound copies
    # exist): every run, every kind
    idx = 0
    for h in TARGETED:
        for kind in kinds:
            idx += 1
            if ctx.mine(idx):
                run_history(ctx, kind, h)
    n = {'quick': 1000, 'thorough': 100000}[ctx.tier] // ctx.nshards
    for _ in range(n):
        if ctx.out_of_time('random histories'):
            break
        L = rnd.randint(2, 6)
        run_history(ctx, rnd.choice(kinds), [rnd.choice(ALPHABET) for _ in range(L)])


def replay(ctx, rec):
    if rec['workload'] == 'order':
        fparams = sigs.from_json(rec['fparams'])
        # steps are re-derived from their text
        steps = []
        for text in rec['steps']:
            steps.append(parse_step(text, fparams))
        check_orders(ctx, fparams, steps)
    else:
        run_history(ctx, rec['kind'], rec['history'])


def parse_step(text, fparams):
    import ast
    pk = [p[0] for p in fparams if p[1] == PK]
    call = ast.parse(text, mode='eval').body
    if isinstance(call, ast.Name):
        po_done = set()
        return (text, {p[0] for p in fparams if p[1] == PK and p[2] is not None}, set())
    fn = call.func.id
    pos = [a.value for a in call.args]
    kw = {k.arg: k.value.value for k in call.keywords}
    if fn == 'kwoargs':
        return (text, set(pos), set())
    if fn == 'posoargs':
        if 'end' in kw:
            return (text, set(), set(pk[:pk.index(kw['end']) + 1]))
        return (text, set(), set(pos))
    if fn == 'annotate':
        return (text, set(), set(), tuple(kw))
    raise ValueError(text)

"""W-PART (C19): functools.partial objects over the universe, compared with
really calling the partial object.  Boundary monitor: the client retrieves the
signature, then calls."""
import functools
import itertools

from . import sigs, oracle
from . import core
from .sigs import PO, PK, VA, KO, VK
from .sigutil import bparams, show, show_params, sources_view

_n = itertools.count()


def V(ctx, mech, what, w, rp):
    ctx.violation('C19', 'PartialBoundary', mech, what, w, rp)


class SizedPartial(functools.partial):
    def __len__(self):
        return len(self.args)


@core.guarded(None)
def check_partial(ctx, fparams, npos, kws, nested=None):
    """One binding: p = partial(f, *[0]*npos, **{k: 5})  (optionally nested:
    partial(partial(f, *a1, **k1), *a2, **k2))."""
    import sigtools
    from sigtools import signatures
    serial = next(_n)
    f = sigs.make_func(fparams, name='pf%d' % serial, body='pass')
    # every fourth partial object is an instance of a subclass with a length (the number of bound positionals):
    # falsy when only keywords are bound -- "is this a partial object" is a type question, never a truth value
    P = SizedPartial if serial % 4 == 0 else functools.partial
    p = P(f, *([0] * npos), **{k: 5 for k in kws})
    layers = [(npos, tuple(kws))]
    if nested:
        n2, k2 = nested
        p = P(p, *([0] * n2), **{k: 6 for k in k2})
        layers.append((n2, tuple(k2)))
    rp = dict(workload='partial', fparams=sigs.to_json(fparams), layers=[[a, list(b)] for a, b in layers])
    w = {'func': show_params(fparams), 'bound': [{'positionals': a, 'keywords': list(b)} for a, b in layers]}
    allkws = set(itertools.chain.from_iterable(b for a, b in layers))
    if allkws & {x[0] for x in fparams if x[1] == PO}:
        ctx.count('C19.skipped_posonly_keyword')
        return
    fb = sigs.shape_key(fparams)
    sp = oracle.Space.get(sigs.positional_capacity(fb) + 2,
                          set(sigs.names_of(fb)) | allkws | {oracle.FOREIGN})
    try:
        real = sp.acc_callable(p)
    except Exception as e:
        ctx.count('C19.real_call_failed_otherwise')
        return
    outcomes = {}
    for label, retrieve in (('signatures.signature', signatures.signature),
                            ('sigtools.signature', sigtools.signature)):
        ctx.evaluated()
        ctx.count('C19.retrievals')
        try:
            sig = retrieve(p)
        except (ValueError, TypeError) as e:
            outcomes[label] = e
            if real:
                # inspect also refuses partials that can never be called; when the
                # partial object does accept calls, retrieval has to succeed
                import inspect
                try:
                    inspect.signature(p)
                except (ValueError, TypeError):
                    ctx.count('C19.inspect_refuses_too')
                    continue
                V(ctx, 'partial-retrieval-raises', '%s raised %s for a partial object that accepts calls' % (
                    label, type(e).__name__), dict(w, exception=repr(e)), rp)
            else:
                ctx.count('C19.uncallable_partial_raises')
            continue
        outcomes[label] = sig
        res = bparams(sig)
        nc = sp.noncolliding(res, [fb])
        acc = sp.acc(res)
        ctx.nontrivial((label, fb, tuple(layers)))
        ctx.sample('partial', lambda: dict(w, retrieval=label, result=show(sig)), limit=4)
        extra = acc & nc & ~real
        lost = real & nc & ~acc
        if extra:
            V(ctx, 'partial-signature-accepts-too-much',
              '%s of a partial accepts a non-colliding call the partial object rejects' % label,
              dict(w, result=show(sig), shape=sp.first(extra)), rp)
        if lost:
            V(ctx, 'partial-signature-rejects-too-much',
              '%s of a partial rejects a non-colliding call the partial object accepts' % label,
              dict(w, result=show(sig), shape=sp.first(lost)), rp)
        # structural clauses (single layer only: they are stated for one binding)
        if len(layers) == 1:
            structural(ctx, sig, fparams, npos, kws, p, w, rp, label)


def structural(ctx, sig, fparams, npos, kws, p, w, rp, label):
    ctx.count('C19.structural')
    pos = [x for x in fparams if x[1] in (PO, PK)]
    bound_pos = [x[0] for x in pos[:npos]]
    for n in bound_pos:
        if n in sig.parameters and n not in kws:
            V(ctx, 'partial-bound-positional-still-there', 'bound positional parameter %r is still in the signature' % n,
              dict(w, result=show(sig), retrieval=label), rp)
    pk_named = [x[0] for x in fparams if x[1] == PK and x[0] in kws and x[0] not in bound_pos]
    if pk_named:
        first = min(i for i, x in enumerate(fparams) if x[0] in pk_named)
        for x in fparams[first:]:
            if x[1] == PK and x[0] in sig.parameters:
                if sig.parameters[x[0]].kind != sig.parameters[x[0]].KEYWORD_ONLY:
                    V(ctx, 'partial-following-not-keyword-only',
                      'parameter %r follows a keyword-bound parameter but is not keyword-only' % x[0],
                      dict(w, result=show(sig), retrieval=label), rp)
        if any(q.kind == q.VAR_POSITIONAL for q in sig.parameters.values()):
            V(ctx, 'partial-varargs-kept', '*args kept although a positional-or-keyword parameter is bound by keyword',
              dict(w, result=show(sig), retrieval=label), rp)
    declared = set(sigs.names_of(fparams))
    for k in kws:
        q = sig.parameters.get(k)
        if q is None:
            if k in bound_pos:
                continue
            V(ctx, 'partial-keyword-missing', 'bound keyword %r is not in the signature' % k,
              dict(w, result=show(sig), retrieval=label), rp)
            continue
        if q.kind != q.KEYWORD_ONLY or q.default != 5:
            V(ctx, 'partial-keyword-not-kwo-default', 'bound keyword %r is not keyword-only with the bound value as default' % k,
              dict(w, result=show(sig), retrieval=label), rp)
        if k not in declared:
            if [id(c) for c in sig.sources.get(k, ())] != [id(p)]:
                V(ctx, 'partial-absorbed-keyword-source', 'absorbed keyword %r is not sourced to the partial object' % k,
                  dict(w, result=show(sig), sources=sources_view(sig), retrieval=label), rp)
    depths = sig.sources.get('+depths', {})
    if not any(c is p and d == 0 for c, d in depths.items()):
        V(ctx, 'partial-not-depth-0', 'the partial object is not at depth 0',
          dict(w, sources=sources_view(sig), retrieval=label), rp)


FORWARD_SRC = '''
from sigtools import modifiers
def callee(%(callee)s): pass
%(dress)s
def outer(func, %(outer)s):
    return func(%(args)s)
'''

# the forwarding function is a method, the partial is built over the BOUND method (instance or class method)
FORWARD_METHOD_SRC = '''
def callee(%(callee)s): pass
class Base(object):
    def outer(self, func, %(outer)s):
        return func(%(args)s)
    @classmethod
    def couter(cls, func, %(outer)s):
        return func(%(args)s)
class Holder(Base):
    pass
outer = Holder().%(which)s
'''

# the callee is reached through a chain of two attributes of the bound positional
FORWARD_ATTRS_SRC = '''
def callee(%(callee)s): pass
class NS(object): pass
service = NS()
service.backend = NS()
service.backend.run = callee
service.run = None
def outer(func, %(outer)s):
    return func.backend.run(%(args)s)
'''

# the callee is only the DEFAULT of a keyword-only parameter: neither the default nor a keyword bound by the
# partial resolves it ("positionals resolve callee parameters, keywords do not")
FORWARD_KWDEFAULT_SRC = '''
def callee(%(callee)s): pass
def other(p_, q_, r_): pass
def outer(%(outer)s):
    return func(%(args)s)
'''


@core.guarded(None)
def check_forwarding_partial(ctx, oparams, cparams, by_keyword, dress=None):
    """partial(outer, callee) resolves the callee (bound positional);
    partial(outer, func=callee) does not.  dress: the forwarding function is wrapped by a
    sigtools.modifiers decorator (a _PokTranslator: discovery then goes through its hint)."""
    import sigtools
    from sigtools import signatures
    dress_line = ''
    if dress == 'posoargs-func':
        dress_line = "@modifiers.posoargs('func')"
        if by_keyword:
            ctx.count('C19.skipped_posonly_keyword')
            return
    elif dress == 'kwoargs':
        pk = [q[0] for q in oparams if q[1] == PK]
        if not pk:
            dress = None
        else:
            dress_line = '@modifiers.kwoargs(%r)' % pk[-1]
    if by_keyword and sigs.has_kind(oparams, PO):
        # `func` would be positional-only itself: binding it by keyword is the
        # excluded positional-only-name-next-to-**kwargs case
        ctx.count('C19.skipped_posonly_keyword')
        return
    ova = sigs.star_name(oparams, VA)
    ovk = sigs.star_name(oparams, VK)
    args = ', '.join((['*' + ova] if ova else []) + (['**' + ovk] if ovk else []))
    placement = 'function'
    if not dress and (len(oparams) * 3 + len(cparams)) % 4 == 0:
        placement = ('outer', 'couter')[(len(oparams) + len(cparams)) % 2]
        ctx.count('C19.forwarding_partials_over_bound_methods')
        src = FORWARD_METHOD_SRC % dict(callee=sigs.render(cparams), outer=sigs.render(oparams), args=args, which=placement)
    elif not dress and not by_keyword and (len(oparams) * 3 + len(cparams)) % 4 == 1:
        placement = 'attrs'
        ctx.count('C19.forwarding_partials_callee_through_attribute_chain')
        src = FORWARD_ATTRS_SRC % dict(callee=sigs.render(cparams), outer=sigs.render(oparams), args=args)
    else:
        src = FORWARD_SRC % dict(callee=sigs.render(cparams), outer=sigs.render(oparams), args=args, dress=dress_line)
    g = sigs.compile_module(src, tag='vpart')
    outer, callee = g['outer'], g['callee']
    bound_value = g['service'] if placement == 'attrs' else callee
    if dress:
        ctx.count('C19.forwarding_partials_through_modifier')
    p = functools.partial(outer, func=callee) if by_keyword else functools.partial(outer, bound_value)
    # two partial objects stacked and NOT flattened by functools (the inner one carries an attribute), with a
    # positional bound at each level: the callee at the inner, the first parameter of outer at the outer one
    stacked = 0
    opos = [q for q in oparams if q[1] in (PO, PK)]
    if not by_keyword and not dress and (len(oparams) + len(cparams)) % 3 == 0:
        p.label = 'kept apart'
        stacked = 1 + (1 if opos else 0)
        p = functools.partial(p, 0) if opos else functools.partial(p)
        ctx.count('C19.forwarding_partials_stacked')
    rp = dict(workload='partial-forwarding', oparams=sigs.to_json(oparams), cparams=sigs.to_json(cparams),
              by_keyword=by_keyword, dress=dress)
    w = {'outer': '%sdef outer(%sfunc, %s): return func(%s)' % (dress_line + ' ' if dress_line else '', {'function': '', 'attrs': '', 'outer': 'self, ', 'couter': 'cls, '}[placement], sigs.render(oparams), args),
         'placement': {'function': 'function', 'attrs': 'function calling func.backend.run(...); the partial binds the object that has .backend.run', 'outer': 'bound method of an instance (inherited)', 'couter': 'classmethod through an instance (inherited)'}[placement],
         'callee': show_params(cparams), 'partial': 'partial(outer, func=callee)' if by_keyword else 'partial(outer, callee)'}
    ctx.evaluated()
    ctx.count('C19.forwarding_partials')
    try:
        sig = sigtools.signature(p)
    except Exception as e:
        V(ctx, 'forwarding-partial-raises', 'sigtools.signature raised %s on a partial of a forwarding wrapper' % type(e).__name__,
          dict(w, exception=repr(e)), rp)
        return
    plain = signatures.signature(p)
    if by_keyword:
        ctx.nontrivial(('fwd-kw', sigs.shape_key(oparams), sigs.shape_key(cparams)))
        if bparams(sig) != bparams(plain):
            V(ctx, 'forwarding-partial-keyword-resolved',
              'a callee bound by keyword was used to resolve the forwarding (keywords must not resolve callee parameters)',
              dict(w, result=show(sig), plain=show(plain)), rp)
        return
    # soundness by execution; exactness against the declared equivalent -- now, and once more on the
    # SAME partial object after the callee it binds changed what it accepts (its defaults are replaced:
    # every positional parameter optional, or none): nothing remembered from the first retrieval may show
    for round_ in (0, 1):
        if round_ == 1:
            npos = len([q for q in cparams if q[1] in (PO, PK)])
            if not npos or (case_no_mutation(oparams, cparams)):
                return
            had = callee.__defaults__
            callee.__defaults__ = None if had else tuple(range(npos))
            cparams = tuple((q[0], q[1], (None if had else '0') if q[1] in (PO, PK) else q[2], q[3]) for q in cparams)
            ctx.count('C19.requeried_after_callee_changed')
            w = dict(w, callee_now=show_params(cparams), note='second retrieval on the same partial object after callee.__defaults__ was replaced')
            try:
                sig = sigtools.signature(p)
            except Exception as e:
                V(ctx, 'forwarding-partial-raises', 'sigtools.signature raised %s on a partial of a forwarding wrapper' % type(e).__name__,
                  dict(w, exception=repr(e)), rp)
                return
            plain = signatures.signature(p)
        judge_forwarding_partial(ctx, sigtools, signatures, p, outer, callee, oparams, cparams, dress, ova, ovk, sig, plain, w, rp,
                                 bound=max(stacked, 1))
        if round_ == 0 and not stacked:
            check_second_partial(ctx, sigtools, signatures, outer, bound_value, p, w, rp)


@core.guarded(None)
def check_forwarding_partial_kwdefault(ctx, oparams, cparams, rebind):
    import sigtools
    from sigtools import signatures
    ova = sigs.star_name(oparams, VA)
    ovk = sigs.star_name(oparams, VK)
    args = ', '.join((['*' + ova] if ova else []) + (['**' + ovk] if ovk else []))
    lst = list(oparams)
    at = next((k for k, q in enumerate(lst) if q[1] == VK), len(lst))
    lst.insert(at, ('func', KO, 'callee', None))
    src = FORWARD_KWDEFAULT_SRC % dict(callee=sigs.render(cparams), outer=sigs.render(tuple(lst)), args=args)
    g = sigs.compile_module(src, tag='vpart')
    outer = g['outer']
    cap = sigs.positional_capacity(oparams)
    n = 1 if (cap or ova) else 0
    kw = {'func': g['other']} if rebind else {}
    p = functools.partial(outer, *([0] * n), **kw)
    rp = dict(workload='partial-forwarding-kwdefault', oparams=sigs.to_json(oparams), cparams=sigs.to_json(cparams), rebind=rebind)
    w = {'outer': 'def outer(%s): return func(%s)' % (sigs.render(tuple(lst)), args), 'callee': show_params(cparams),
         'partial': 'partial(outer%s%s)' % (', 0' * n, ', func=other' if rebind else '')}
    ctx.evaluated()
    ctx.count('C19.forwarding_partials_callee_only_a_default')
    try:
        sig = sigtools.signature(p)
        plain = signatures.signature(p)
    except Exception as e:
        V(ctx, 'forwarding-partial-raises', 'retrieval raised %s on a partial of a forwarding wrapper' % type(e).__name__,
          dict(w, exception=repr(e)), rp)
        return
    ctx.nontrivial(('fwd-kwdefault', sigs.shape_key(oparams), sigs.shape_key(cparams), rebind, n))
    if bparams(sig) != bparams(plain):
        V(ctx, 'forwarding-partial-default-or-keyword-resolved',
          'a callee that is only the default of a keyword-only parameter (or bound by keyword in the partial) was used to resolve the forwarding',
          dict(w, result=show(sig), plain=show(plain)), rp)


TWO_LEVEL_SRC = '''
def inner_a(%(a)s): pass
def inner_b(%(b)s): pass
def mid(count, first, second, *a, **k):
    return first(*a, **k)
def outer(f, g1, g2, *args, **kwargs):
    return f(len(args), g1, g2, *args, **kwargs)
'''


@core.guarded(None)
def check_two_level_partial(ctx, aparams, bparams_):
    """partial(outer, mid, inner_a, inner_b): outer hands a run-time value and two of the bound positionals on to
    its first one, which forwards to the first of those two -- the bound positionals must keep their slots on
    the way down.  Expected: mask(forwards(outer, forwards(mid, inner_a), 3), 3)."""
    import sigtools
    from sigtools import signatures
    g = sigs.compile_module(TWO_LEVEL_SRC % dict(a=sigs.render(aparams), b=sigs.render(bparams_)), tag='vpart2')
    p = functools.partial(g['outer'], g['mid'], g['inner_a'], g['inner_b'])
    rp = dict(workload='partial-two-level', aparams=sigs.to_json(aparams), bparams=sigs.to_json(bparams_))
    w = {'program': 'def mid(count, first, second, *a, **k): return first(*a, **k); def outer(f, g1, g2, *args, **kwargs): return f(len(args), g1, g2, *args, **kwargs)',
         'inner_a': show_params(aparams), 'inner_b': show_params(bparams_), 'partial': 'partial(outer, mid, inner_a, inner_b)'}
    ctx.evaluated()
    ctx.count('C19.two_level_partials')
    try:
        sig = sigtools.signature(p)
    except Exception as e:
        V(ctx, 'forwarding-partial-raises', 'sigtools.signature raised %s on a two-level forwarding partial' % type(e).__name__,
          dict(w, exception=repr(e)), rp)
        return
    S = signatures.signature
    try:
        want = signatures.mask(signatures.forwards(S(g['outer']), signatures.forwards(S(g['mid']), S(g['inner_a'])), 3), 3)
    except ValueError:
        want = S(p)
    ctx.nontrivial(('two-level', sigs.shape_key(aparams), sigs.shape_key(bparams_)))
    if bparams(want) != bparams(sig):
        V(ctx, 'two-level-forwarding-partial-differs-from-declared',
          'sigtools.signature(partial(outer, mid, inner_a, inner_b)) differs from the declared equivalent',
          dict(w, result=show(sig), declared=show(want)), rp)


def check_second_partial(ctx, sigtools, signatures, outer, bound_value, first, w, rp):
    """Another partial object over the same function, after the first one was retrieved: it is at depth 0 of ITS
    signature, the function one level below, and the first partial object is nowhere in it -- nor did the first
    answer change."""
    p2 = functools.partial(outer, bound_value)
    for retr in (sigtools.signature, signatures.signature):
        try:
            s1 = retr(first)
            d1 = dict(s1.sources.get('+depths', {}))
            s2 = retr(p2)
        except Exception:
            return
        ctx.count('C19.second_partial_over_same_function')
        d2 = s2.sources.get('+depths', {})
        problems = []
        if any(c is first for c in d2):
            problems.append('the first partial object is listed in the signature of the second')
        if not any(c is p2 and d == 0 for c, d in d2.items()):
            problems.append('the second partial object is not at depth 0')
        if any(c is outer and d != 1 for c, d in d2.items()):
            problems.append('the function is not one level below the partial object')
        if dict(s1.sources.get('+depths', {})) != d1:
            problems.append('the depths of the signature retrieved first changed afterwards')
        if problems:
            V(ctx, 'second-partial-over-same-function', '; '.join(problems),
              dict(w, retrieval=retr.__module__ + '.signature', depths_second=sources_view(s2).get('+depths'), depths_first=sources_view(s1).get('+depths')), rp)
            return


def case_no_mutation(oparams, cparams):
    # (replacing defaults is only meaningful when the callee has positional parameters; kept as a hook)
    return False


def judge_forwarding_partial(ctx, sigtools, signatures, p, outer, callee, oparams, cparams, dress, ova, ovk, sig, plain, w, rp, bound=1):
    ob = sigs.shape_key(oparams)
    full_outer = (('func', PK, None, None),) + tuple(ob)
    if dress:
        # what the modifier advertises for outer (func first; the selection moved / made positional-only)
        full_outer = tuple(bparams(signatures.signature(outer)))
        ob = full_outer[1:]
    cb = sigs.shape_key(cparams)
    res = bparams(sig)
    sp = oracle.space_for([ob, cb, res])
    try:
        real = sp.acc_callable(p)
    except Exception:
        ctx.count('C19.real_call_failed_otherwise')
        return
    nc = sp.noncolliding(res, [full_outer, cb])
    acc = sp.acc(res)
    ctx.nontrivial(('fwd-pos', ob, cb))
    ctx.sample('forwarding-partial', lambda: dict(w, result=show(sig)), limit=3)
    extra = acc & nc & ~real
    if extra and bparams(sig) != bparams(plain):
        V(ctx, 'forwarding-partial-unsound', 'the discovered signature of partial(outer, callee) accepts a call that raises TypeError',
          dict(w, result=show(sig), shape=sp.first(extra)), rp)
    depths = sig.sources.get('+depths', {})
    if not any(c is p and d == 0 for c, d in depths.items()):
        V(ctx, 'forwarding-partial-not-depth-0', 'the partial object is not at depth 0',
          dict(w, result=show(sig), sources=sources_view(sig)), rp)
    # declared equivalent: forwards(outer, callee) then bind one positional
    try:
        want = signatures.mask(signatures.forwards(signatures.signature(outer), sigtools.signature(callee),
                                                   use_varargs=bool(ova), use_varkwargs=bool(ovk)), bound)
    except ValueError:
        want = None
    if want is not None:
        ctx.count('C19.forwarding_vs_declared')
        if bparams(want) != res:
            V(ctx, 'forwarding-partial-differs-from-declared',
              'sigtools.signature(partial(outer, callee)) differs from mask(forwards(outer, callee), 1)',
              dict(w, result=show(sig), declared=show(want)), rp)
    elif bparams(sig) != bparams(plain):
        V(ctx, 'forwarding-partial-should-fall-back',
          'forwards(outer, callee) raises but the partial does not get the plain signature',
          dict(w, result=show(sig), plain=show(plain)), rp)


def run(ctx):
    tier = ctx.tier
    rnd = ctx.rng('partial')
    U = sigs.U(('a', 'b', 'c'), 3, stars=sigs.STARS2[:1])
    if tier == 'quick':
        order = list(range(len(U)))
        rnd.shuffle(order)
        chosen = sorted(order[:500])
    else:
        chosen = range(len(U))
    idx = 0
    done = True
    for j in chosen:
        if ctx.out_of_time('partial bindings'):
            done = False
            break
        idx += 1
        if not ctx.mine(idx):
            continue
        p = U[j]
        cap = sigs.positional_capacity(p)
        cand = [x[0] for x in p if x[1] in (PK, KO)]
        if sigs.has_kind(p, VK):
            cand.append(oracle.FOREIGN)
        kwsets = [()] + [(k,) for k in cand] + list(itertools.combinations(cand, 2))
        va_name = sigs.star_name(p, VA)
        if va_name and sigs.has_kind(p, VK):
            # a keyword spelled like the *args parameter is an ordinary keyword that **kwargs absorbs; alone, and
            # before / after a keyword that binds a positional-or-keyword parameter (which is what removes *args from the signature)
            # (only together with such a binding keyword: while *args itself stays in the signature the absorbed keyword
            # cannot be shown under its name -- see DESIGN section 5.2, last entry -- and no registered check drives that)
            named_kw = [x[0] for x in p if x[1] == PK]
            kwsets += [(va_name, k) for k in named_kw] + [(k, va_name) for k in named_kw]
        for npos in range(0, cap + 2):
            for kws in kwsets:
                check_partial(ctx, p, npos, kws)
        # nested partials
        for _ in range(3):
            n1 = rnd.randint(0, cap)
            k1 = tuple(rnd.sample(cand, rnd.randint(0, min(1, len(cand)))))
            n2 = rnd.randint(0, max(0, cap - n1))
            k2 = tuple(rnd.sample(cand, rnd.randint(0, min(1, len(cand)))))
            check_partial(ctx, p, n1, k1, nested=(n2, k2))
    if tier == 'thorough':
        ctx.exhaustive['partial: U({a,b,c},3) x counts 0..len+1 x keyword sets <= 2'] = done
    # partials of forwarding wrappers
    outers = [o for o in sigs.U(('a', 'b'), 2, stars=sigs.STARS2[:1]) if sigs.has_kind(o, VA) or sigs.has_kind(o, VK)]
    callees = sigs.U(('x', 'y', 'z'), 2, stars=sigs.STARS2[:1])
    nfw = {'quick': 2500, 'thorough': 200000}[tier] // ctx.nshards
    for _ in range(nfw):
        if ctx.out_of_time('forwarding partials'):
            break
        check_forwarding_partial(ctx, rnd.choice(outers), rnd.choice(callees), by_keyword=rnd.random() < 0.25,
                                 dress=rnd.choice((None, None, 'posoargs-func', 'kwoargs')))
        if rnd.random() < 0.2:
            check_forwarding_partial_kwdefault(ctx, rnd.choice(outers), rnd.choice(callees), rebind=rnd.random() < 0.5)
        if rnd.random() < 0.1:
            check_two_level_partial(ctx, rnd.choice(callees), rnd.choice(callees))


def replay(ctx, rec):
    if rec['workload'] == 'partial':
        layers = rec['layers']
        nested = tuple(layers[1]) if len(layers) > 1 else None
        if nested:
            nested = (nested[0], tuple(nested[1]))
        check_partial(ctx, sigs.from_json(rec['fparams']), layers[0][0], tuple(layers[0][1]), nested=nested)
    elif rec['workload'] == 'partial-two-level':
        check_two_level_partial(ctx, sigs.from_json(rec['aparams']), sigs.from_json(rec['bparams']))
    elif rec['workload'] == 'partial-forwarding-kwdefault':
        check_forwarding_partial_kwdefault(ctx, sigs.from_json(rec['oparams']), sigs.from_json(rec['cparams']), rec['rebind'])
    else:
        check_forwarding_partial(ctx, sigs.from_json(rec['oparams']), sigs.from_json(rec['cparams']), rec['by_keyword'],
                                 dress=rec.get('dress'))

"""W-SCHED (C17): a deterministic thread scheduler on sys.monitoring LINE
events.  Exactly one client thread runs at a time; at chosen (thread, step)
points -- statement boundaries of sigtools code, where the real interpreter
can switch threads too -- the turn is handed to another thread.  A schedule
replays exactly.  Boundary monitor: every operation must return what it
returns alone; at quiescence the shared objects are as they were."""
import inspect
import functools
import itertools
import os
import random
import sys
import threading
import time

from . import env, sigs
from .sigutil import sources_view
from . import w_fault

mon = sys.monitoring
TOOL_ID = 3
M1 = 'transient-removal-of-wrapped-visible-to-other-threads'
M2 = 'shared-as-forged-recursion-guard'


class Scheduler(object):
    def __init__(self):
        self.cv = threading.Condition()
        self.turn = None
        self.steps = {}
        self.plan = {}
        self.done = set()
        self.tids = {}
        self.enabled = False
        self.installed = False
        self.probe = None           # called at every step of a solo run: probe(thread, step, code, line)
        self.switch_log = []
        self._in_sig = {}

    def install(self):
        if self.installed:
            return
        mon.use_tool_id(TOOL_ID, 'vf-scheduler')
        mon.register_callback(TOOL_ID, mon.events.LINE, self.on_line)
        mon.set_events(TOOL_ID, mon.events.LINE)
        self.installed = True

    def uninstall(self):
        if self.installed:
            mon.set_events(TOOL_ID, 0)
            mon.register_callback(TOOL_ID, mon.events.LINE, None)
            mon.free_tool_id(TOOL_ID)
            self.installed = False

    def on_line(self, code, line):
        r = self._in_sig.get(code)
        if r is None:
            r = self._in_sig[code] = env.in_sigtools(code.co_filename)
        if not r:
            return mon.DISABLE
        if not self.enabled:
            return
        t = self.tids.get(threading.get_ident())
        if t is None:
            return
        self.steps[t] += 1
        step = self.steps[t]
        if self.probe is not None:
            self.probe(t, step, code, line)
        nxt = self.plan.get((t, step))
        if nxt is not None and nxt not in self.done and nxt != t:
            self.switch_log.append((t, step, os.path.basename(code.co_filename), line, nxt))
            with self.cv:
                self.turn = nxt
                self.cv.notify_all()
                while self.turn != t:
                    self.cv.wait()

    def run(self, ops, plan, watchdog=30.0):
        """ops: list of callables (one per thread).  Returns (results, steps, hung)."""
        n = len(ops)
        self.plan = plan
        self.steps = {i: 0 for i in range(n)}
        self.done = set()
        self.tids = {}
        self.switch_log = []
        results = [None] * n

        def worker(i):
            self.tids[threading.get_ident()] = i
            with self.cv:
                while self.turn != i:
                    self.cv.wait()
            try:
                results[i] = ('ret', ops[i]())
            except BaseException as e:
                results[i] = ('raise', e)
            finally:
                with self.cv:
                    self.done.add(i)
                    rem = [j for j in range(n) if j not in self.done]
                    self.turn = rem[0] if rem else None
                    self.cv.notify_all()
        threads = [threading.Thread(target=worker, args=(i,), daemon=True) for i in range(n)]
        self.turn = None
        self.enabled = True
        for t in threads:
            t.start()
        with self.cv:
            self.turn = 0
            self.cv.notify_all()
        deadline = time.time() + watchdog
        for t in threads:
            t.join(max(0.1, deadline - time.time()))
        self.enabled = False
        hung = any(t.is_alive() for t in threads)
        return results, dict(self.steps), hung


SCHED = Scheduler()

# ----------------------------------------------------------------- scenarios

PRELUDE = w_fault.PRELUDE

SCENARIOS = {
    'S1-two-sigtools-on-wraps': ('f = deco(inner)\nshared = [f]', [('sigtools', 'f'), ('sigtools', 'f')]),
    'S2-sigtools-vs-inspect-on-wraps': ('f = deco(inner)\nshared = [f]', [('sigtools', 'f'), ('inspect', 'f')]),
    'S3a-two-inspect-on-forger-wrapper': ('''
@specifiers.forwards_to_function(inner, emulate=True)
def f(a, *args, **kwargs): return inner(*args, **kwargs)
shared = [f]
''', [('inspect', 'f'), ('inspect', 'f')]),
    'S3b-two-inspect-on-decorator-object': ('''
@wrappers.decorator
def d(func, *args, opt=False, **kwargs): return func(*args, **kwargs)
@d
def f(x, y): return x
shared = [f]
''', [('inspect', 'f'), ('inspect', 'f')]),
    'S3c-sigtools-vs-inspect-on-decorator-object': ('''
@wrappers.decorator
def d(func, *args, opt=False, **kwargs): return func(*args, **kwargs)
@d
def f(x, y): return x
shared = [f]
''', [('sigtools', 'f'), ('inspect', 'f')]),
    'S4-wrapper-and-wrapped': ('g = deco(inner)\nf = deco(g)\nshared = [f, g]', [('sigtools', 'f'), ('sigtools', 'g')]),
    'S5-modifier-method-one-instance': ('''
class A(object):
    @modifiers.kwoargs('b')
    def m(self, a, b=2, *args, **kwargs): return inner(*args, **kwargs)
obj = A()
shared = [A.__dict__['m'], obj]
''', [('sigtools-attr', 'obj.m'), ('sigtools-attr', 'obj.m')]),
    'S5b-forger-method-one-instance': ('''
class A(object):
    def target(self, x, y=1): return x
    @specifiers.forwards_to_method('target', emulate=True)
    def m(self, a, *args, **kwargs): return self.target(*args, **kwargs)
obj = A()
shared = [A.__dict__['m'], obj]
''', [('inspect-attr', 'obj.m'), ('sigtools-attr', 'obj.m')]),
    # the bound wrapper of the first thread is dropped (and collected: it sits in a reference cycle) by the
    # third thread while the second is in the middle of looking the same method up
    'S8-descriptor-cache-entry-collected-meanwhile': ('''
import gc
gc.disable()     # collections happen where the third thread asks for one, nowhere else (re-enabled by the explorer)
class A(object):
    @modifiers.kwoargs('b')
    def m(self, a, b=2, *args, **kwargs): return inner(*args, **kwargs)
obj = A()
hold = []
def reset():
    hold.clear()
    gc.collect()
shared = [A.__dict__['m'], obj]
''', [('exec', 'hold.append(obj.m)'), ('sigtools-attr', 'obj.m'), ('exec', 'hold.clear() or gc.collect()')]),
    # the very first lookups of a forged special method (Python converts its function implicitly in a class
    # body): every schedule starts from freshly built classes
    'S9-first-lookups-of-forged-class-getitem': ('''
class K(object):
    @specifiers.forwards_to_function(inner, emulate=True)
    def __class_getitem__(cls, a, *args, **kwargs): return inner(*args, **kwargs)
shared = [K.__dict__['__class_getitem__']]
''', [('inspect-attr', 'K.__class_getitem__'), ('sigtools-attr', 'K.__class_getitem__')], {'fresh': True}),
    'S9b-first-lookups-of-forged-new': ('''
class K(object):
    @specifiers.forwards_to_function(inner, emulate=True)
    def __new__(cls, a, *args, **kwargs): return object.__new__(cls)
    def __init__(self, *args, **kwargs): pass
k = object.__new__(K)
shared = [K.__dict__['__new__']]
''', [('inspect-attr', 'k.__new__'), ('inspect-attr', 'K.__new__')], {'fresh': True}),
    # a wrappers.decorator method looked at through the class by one thread while another uses the instance
    'S10-decorator-method-class-and-instance': ('''
@wrappers.decorator
def d(func, *args, opt=False, **kwargs): return func(*args, **kwargs)
class A(object):
    @d
    def m(self, x, y=1): return x
obj = A()
shared = [A.__dict__['m'], obj]
''', [('sigtools-attr', 'A.m'), ('inspect-attr', 'obj.m'), ('exec', 'obj.m(1)')]),
    'S10b-wrapper-decorator-method-class-and-instance': ('''
@wrappers.wrapper_decorator
def d(func, *args, opt=False, **kwargs): return func(*args, **kwargs)
class A(object):
    @d
    def m(self, x, y=1): return x
obj = A()
shared = [A.__dict__['m'], obj]
''', [('inspect-attr', 'A.m'), ('sigtools-attr', 'obj.m'), ('sigtools-attr', 'A.m')]),
    # wrappers made at run time around a function that may already have been analysed (functools.wraps copies
    # the wrapped function's __dict__): a thread's answer must not depend on what others retrieved before
    'S11-wraps-wrapper-made-after-analysis': ('''
def fwd(u, *args, **kwargs): return inner(*args, **kwargs)
def make():
    @functools.wraps(fwd)
    def w(a, *args, **kwargs): return fwd(*args, **kwargs)
    return w
shared = [fwd]
''', [('sigtools-attr', 'make()'), ('sigtools-attr', 'make()'), ('sigtools', 'fwd')]),
    # the callee is a functools.lru_cache object: it carries __wrapped__ and has no signature of its own
    'S12-lru-cached-callee': ('''
cached = functools.lru_cache(maxsize=None)(inner)
def f(a, *args, **kwargs): return cached(*args, **kwargs)
shared = [f, cached]
''', [('sigtools', 'f'), ('inspect', 'cached'), ('sigtools', 'cached')]),
    # a modifiers wrapper over a function whose source cannot be retrieved (defined through exec): the hint declines
    'S13-modifier-over-function-without-source': ('''
_ns = {"inner": inner}
exec("def raw(self, a, *args, k, **kwargs): return inner(*args, **kwargs)", _ns)
class B(object):
    m = modifiers.posoargs(end='a')(_ns["raw"])
shared = [B.__dict__['m']]
''', [('sigtools-attr', 'B.m'), ('inspect-attr', 'B.m'), ('sigtools-attr', 'B.m')]),
    'S7-three-threads-on-wraps': ('f = deco(inner)\nshared = [f]', [('sigtools', 'f'), ('inspect', 'f'), ('sigtools', 'f')]),
    'S7b-three-threads-mixed': ('''
g = deco(inner)
f = deco(g)
@wrappers.decorator
def d(func, *args, opt=False, **kwargs): return func(*args, **kwargs)
h = d(f)
shared = [f, g, h]
''', [('sigtools', 'f'), ('inspect', 'h'), ('sigtools', 'g')]),
}


def build(name):
    src, ops = SCENARIOS[name][:2]
    g = sigs.compile_module(PRELUDE + src, tag='vsched')
    return g, ops


def is_fresh(name):
    return len(SCENARIOS[name]) > 2 and SCENARIOS[name][2].get('fresh', False)


def make_op(g, how, expr):
    import sigtools
    if how == 'sigtools':
        obj = eval(expr, g)
        return lambda: sigtools.signature(obj)
    if how == 'inspect':
        obj = eval(expr, g)
        return lambda: inspect.signature(obj)
    code = compile(expr, '<op>', 'eval')
    if how == 'exec':
        return lambda: (eval(code, g), None)[1]
    if how == 'sigtools-attr':
        return lambda: sigtools.signature(eval(code, g))
    return lambda: inspect.signature(eval(code, g))


def render(result):
    kind, v = result
    if kind == 'raise':
        return 'raise ' + type(v).__name__
    try:
        src = sources_view(v) if hasattr(v, 'sources') else None
        return 'ret %s %r' % (v, sorted(src.items()) if isinstance(src, dict) else None)
    except Exception as e:
        return 'ret <unrenderable %s>' % type(e).__name__


def shared_snapshot(g):
    return [w_fault.snapshot(o) for o in g['shared']]


def transient(g, initial):
    """Is some shared object currently without an attribute it started with (the
    window of M1), or does a *shared* recursion guard hold an entry (M2)?"""
    for o, snap in zip(g['shared'], initial):
        path0 = snap.get('f')
        if not path0:
            continue
        have = w_fault._own_attrs(o)
        for k, _ in path0[1]:
            if k in ('__wrapped__', '__signature__') and k not in have:
                return 'M1'
    try:
        from sigtools import specifiers
        guard = vars(specifiers.as_forged).get('currently_computing')
        if isinstance(guard, set) and guard:
            return 'M2'          # one process-wide set: other threads see this entry
    except Exception:
        pass
    return None


def lacks_attribute(o, initial, g):
    for x, snap in zip(g['shared'], initial):
        if x is o:
            path0 = snap.get('f')
            if not path0:
                return False
            have = w_fault._own_attrs(o)
            return any(k in ('__wrapped__', '__signature__') and k not in have for k, _ in path0[1])
    return False


def is_update_wrapper_product(o):
    """The call site of the open finding M1: what functools.wraps / update_wrapper produce -- a plain function or a
    functools.lru_cache object carrying __wrapped__ in its own __dict__."""
    import types
    return isinstance(o, (types.FunctionType, functools._lru_cache_wrapper)) and '__wrapped__' in getattr(o, '__dict__', {})


def predicted_wrong_answers(g, ops_spec):
    """Answers each mechanism would produce, computed sequentially by putting the
    shared object into the mechanism's transient state by hand.  The open finding M1 is known
    for one kind of call site -- a functools.wraps-decorated *function* that a thread retrieves
    with sigtools.signature while others look at it: only such shared objects are put into
    the transient state.  (An object of another kind that goes transient -- e.g. a descriptor
    shared through a class -- is not the known finding.)"""
    import types
    from sigtools import specifiers, _autoforwards
    pred = {M1: set(), M2: set()}
    m1_targets = [o for o in g['shared'] if is_update_wrapper_product(o)]
    for how, expr in ops_spec:
        op = make_op(g, how, expr)
        targets = m1_targets
        # M1 (a): the attribute is absent while the operation runs
        for o in targets:
            for attrs in (('__wrapped__',), ('__signature__',), ('__wrapped__', '__signature__')):
                saved = {}
                for a in attrs:
                    if a in o.__dict__:
                        saved[a] = o.__dict__.pop(a)
                if saved:
                    pred[M1].add(render(outcome(op)))
                for a, v in saved.items():
                    o.__dict__[a] = v
        # M1 (b): a late entrant saved nothing, then reads with the attribute restored
        # (the module global is replaced by a stand-in: works whatever form -- class, generator-based -- the
        # context manager has)
        orig = _autoforwards.cleanup_functools_wrapper
        for skip_for in targets:
            class LateEntrant(object):
                def __init__(self, func, _o=skip_for, _orig=orig):
                    self.cm = None if func is _o else _orig(func)

                def __enter__(self):
                    return self.cm.__enter__() if self.cm is not None else None

                def __exit__(self, *exc):
                    return self.cm.__exit__(*exc) if self.cm is not None else None
            _autoforwards.cleanup_functools_wrapper = LateEntrant
            try:
                pred[M1].add(render(outcome(op)))
            finally:
                _autoforwards.cleanup_functools_wrapper = orig
        # M2: another thread's entry sits in the shared recursion guard
        guard = getattr(specifiers.as_forged, 'currently_computing', None)
        if isinstance(guard, set):
            for o in g['shared']:
                try:
                    guard.add(o)
                except TypeError:
                    continue
                try:
                    pred[M2].add(render(outcome(op)))
                finally:
                    guard.discard(o)
    return pred


def outcome(op):
    try:
        return ('ret', op())
    except BaseException as e:
        return ('raise', e)


def solo_profile(g, ops_spec, initial):
    """Run each operation alone under the scheduler: sequential answers, step
    counts, and the steps at which the shared state is transient (windows)."""
    answers, counts, windows = [], [], []
    for how, expr in ops_spec:
        op = make_op(g, how, expr)
        res = None
        if 'reset' in g:
            g['reset']()
        win = set()
        locs = {}
        def probe(t, step, code, line, _win=win, _locs=locs):
            _locs.setdefault((code.co_filename, line), []).append(step)
            if transient(g, initial):
                _win.add(step)
                # the known finding is about the time it takes "to read the function's own signature": while the
                # attributes are away nothing else of discovery may be running
                # (a nested discovery of ANOTHER object, started from within that read, is part of it)
                f = sys._getframe(1)
                while f is not None:
                    if f.f_code.co_name in BEYOND_OWN_SIGNATURE_READ and env.in_sigtools(f.f_code.co_filename):
                        subject = f.f_locals.get('func')
                        if any(subject is o for o in g['shared']) and lacks_attribute(subject, initial, g):
                            WINDOW_EXTENT.append((f.f_code.co_name, os.path.basename(code.co_filename), line))
                            break
                    f = f.f_back
        SCHED.probe = probe
        res, steps, hung = SCHED.run([op], {})
        SCHED.probe = None
        LOCATION_STEPS.setdefault(id(g), []).append(location_representatives(locs))
        answers.append(render(res[0]))
        counts.append(steps[0])
        # a window step and its two neighbours are where a switch exposes the transient state
        windows.append(sorted(set(s + d for s in win for d in (-1, 0, 1) if 1 <= s + d <= steps[0])))
    return answers, counts, windows


LOCATION_STEPS = {}
# parts of discovery that have nothing to do with reading the inspected function's own signature
BEYOND_OWN_SIGNATURE_READ = {'autoforwards_ast', 'forward_signatures', 'get_ast'}
WINDOW_EXTENT = []


def location_representatives(locs):
    """For every distinct statement (file, line) an operation executes in sigtools: the steps of
    its first two and its last execution -- a preemption there, whatever the stride misses."""
    out = set()
    for steps in locs.values():
        out.update(steps[:2])
        out.add(steps[-1])
    return sorted(out)


def solo_profile_fresh(name, ops_spec):
    """Like solo_profile, but every operation runs alone on freshly built objects (scenarios whose
    first access differs from all later ones)."""
    answers, counts, windows = [], [], []
    for k, (how, expr) in enumerate(ops_spec):
        g, _ = build(name)
        op = make_op(g, how, expr)
        locs = {}
        def probe(t, step, code, line, _locs=locs):
            _locs.setdefault((code.co_filename, line), []).append(step)
        SCHED.probe = probe
        res, steps, hung = SCHED.run([op], {})
        SCHED.probe = None
        answers.append(render(res[0]))
        counts.append(steps[0])
        # no transient-state windows are known for a first access: every distinct code location is one
        windows.append(location_representatives(locs))
    return answers, counts, windows


def alone_answers(ctx, name, ops_spec):
    """"every call returns what it returns when run alone": each operation on freshly built objects nobody has
    looked at, nothing else running.  Also: that single call leaves the shared objects as they were."""
    import gc
    was = gc.isenabled()
    out = []
    for how, expr in ops_spec:
        g2, _ = build(name)
        before = [sorted(w_fault._own_attrs(o)) for o in g2['shared']]
        out.append(render(outcome(make_op(g2, how, expr))) if how != 'exec' else None)
        after = [sorted(w_fault._own_attrs(o)) for o in g2['shared']]
        if how != 'exec' and before != after:
            ctx.violation('C17', 'ConcurrencyBoundary', 'attributes-changed-by-a-single-retrieval',
                          'one retrieval, run alone, leaves a shared object with other attributes than it had',
                          {'scenario': name, 'operation': [how, expr], 'before': before, 'after': after},
                          dict(workload='sched', scenario=name, plan=[]))
    if was:
        gc.enable()
    return out


def check_against_alone(ctx, name, ops_spec, answers, alone):
    ctx.count('C17.answers_compared_with_running_alone', len([a for a in alone if a is not None]))
    for k, (how, expr) in enumerate(ops_spec):
        if alone[k] is not None and answers[k] != alone[k]:
            ctx.violation('C17', 'ConcurrencyBoundary', 'answer-depends-on-earlier-retrievals',
                          'an operation returns something else after other retrievals have run (sequentially) than when it is run alone on fresh objects',
                          {'scenario': name, 'operation': [how, expr], 'alone': alone[k], 'after_others': answers[k]},
                          dict(workload='sched', scenario=name, plan=[]))


def explore(ctx, name, tier):
    g, ops_spec = build(name)
    alone = alone_answers(ctx, name, ops_spec)
    SCHED.install()
    n = len(ops_spec)
    ops = [make_op(g, how, expr) for how, expr in ops_spec]
    fresh = is_fresh(name)
    # warm up (linecache, lazy imports), then profile
    for op in ops:
        outcome(op)
    initial = shared_snapshot(g)
    if fresh:
        answers, counts, windows = solo_profile_fresh(name, ops_spec)
        answers2, counts2, _ = solo_profile_fresh(name, ops_spec)
    else:
        answers, counts, windows = solo_profile(g, ops_spec, initial)
        answers2, counts2, _ = solo_profile(g, ops_spec, initial)
    for _again in range(3):
        if answers == answers2 and counts == counts2:
            break
        # (state that legitimately builds up over the first runs -- memos, lazily filled tables -- changes the number of
        # steps without changing an answer: profile again until two consecutive runs agree)
        ctx.count('C17.solo_profiles_repeated')
        answers, counts, windows = answers2, counts2, _
        if fresh:
            answers2, counts2, _ = solo_profile_fresh(name, ops_spec)
        else:
            answers2, counts2, _ = solo_profile(g, ops_spec, initial)
    if answers != answers2 or counts != counts2:
        ctx.count('C17.unstable_scenarios')
        ctx.inconclusive.append('scenario %s is not deterministic when run alone' % name)
        return
    check_against_alone(ctx, name, ops_spec, answers, alone)
    if WINDOW_EXTENT:
        where = sorted(set(WINDOW_EXTENT))[:4]
        ctx.violation('C17', 'ConcurrencyBoundary', 'attributes-away-beyond-own-signature-read',
                      'while __wrapped__/__signature__ are removed from the shared object, discovery runs code that is not '
                      'reading the function\'s own signature (%s): other threads see the transient state for that whole time' % (
                          ', '.join('%s at %s:%d' % x for x in where)),
                      {'scenario': name, 'where': [list(x) for x in where]}, dict(workload='sched', scenario=name, plan=[]))
        del WINDOW_EXTENT[:]
    pred = predicted_wrong_answers(g, ops_spec)
    if shared_snapshot(g) != initial:
        ctx.inconclusive.append('scenario %s: computing predicted answers disturbed the shared objects' % name)
        return
    rnd = ctx.rng('sched-' + name)
    schedules = []
    # ---- one preemption: (t1, k) -> t2.  Quick tier, in order of priority (the time slice of a scenario may
    # end before the list does): the steps where the shared state is transient, then one step per distinct
    # statement the operation executes (first two and last execution), then a stride over all steps.
    first, second, third = [], [], []
    for t1, t2 in itertools.permutations(range(n), 2):
        if tier != 'quick':
            first.extend({(t1, k): t2} for k in range(1, counts[t1] + 1))
            continue
        stride = max(1, counts[t1] // 100)
        wins = list(windows[t1])
        if len(wins) > 150 and not fresh:
            wins = wins[::max(1, len(wins) // 150)]
        reps = LOCATION_STEPS.get(id(g), [])
        reps = list(reps[t1]) if len(reps) > t1 else []
        seen = set()
        entry = range(1, min(counts[t1], 40) + 1)       # the first statements of an operation: lookups, cache probes
        for bucket, ks in ((first, wins), (first, entry), (second, reps), (third, range(1, counts[t1] + 1, stride))):
            for k in ks:
                if k not in seen:
                    seen.add(k)
                    bucket.append({(t1, k): t2})
    rnd.shuffle(second)
    schedules = first + second + third
    one = len(schedules)
    # ---- two preemptions: (t1, k1) -> t2, (t2, k2) -> t1
    for t1, t2 in itertools.permutations(range(n), 2):
        w1, w2 = windows[t1], windows[t2]
        pairs = [(k1, k2) for k1 in w1 for k2 in w2]
        cap = {'quick': 200, 'thorough': 20000}[tier]
        if len(pairs) > cap:
            pairs = rnd.sample(pairs, cap)
        extra = {'quick': 60, 'thorough': 3000}[tier]
        for _ in range(extra if counts[t1] and counts[t2] else 0):
            pairs.append((rnd.randint(1, counts[t1]), rnd.randint(1, counts[t2])))
        for k1, k2 in pairs:
            schedules.append({(t1, k1): t2, (t2, k2): t1})
    # ---- three threads: chains of two/three preemptions
    if n >= 3:
        for _ in range({'quick': 150, 'thorough': 6000}[tier]):
            order = rnd.sample(range(n), 3)
            plan = {}
            src = order[0]
            for dst in order[1:] + [order[0]]:
                pool = windows[src] if windows[src] and rnd.random() < 0.7 else range(1, counts[src] + 1)
                if len(pool):
                    plan[(src, rnd.choice(list(pool)))] = dst
                src = dst
            schedules.append(plan)
    if ctx.shard == 0:
        ctx.extra.setdefault('scenarios', {})[name] = dict(
            steps_per_operation=counts, window_steps=[len(x) for x in windows],
            one_preemption_schedules=one, schedules_total=len(schedules), sequential_answers=answers)
    pairs_seen = ctx.extra.setdefault('_pairs', set())
    slice_end = ctx.clock() + ctx.extra.get('_slice', 1e9)
    for i, plan in enumerate(schedules):
        if not ctx.mine(i):
            continue
        if ctx.out_of_time('schedules of ' + name):
            break
        if ctx.clock() > slice_end:
            if ('time slice of ' + name) not in ctx.shortened:
                ctx.shortened.append('time slice of ' + name)
            break
        if fresh:
            g, _ = build(name)
            ops = [make_op(g, how, expr) for how, expr in ops_spec]
            initial = shared_snapshot(g)
        run_schedule(ctx, name, g, ops, ops_spec, plan, answers, initial, pred, pairs_seen)
    if tier == 'thorough' and not ctx.out_of_time():
        ctx.exhaustive['%s: every one-preemption schedule' % name] = True


def run_schedule(ctx, name, g, ops, ops_spec, plan, answers, initial, pred, pairs_seen, replaying=False):
    exposed = []
    def probe(t, step, code, line):
        pass
    if 'reset' in g:
        g['reset']()
    results, steps, hung = SCHED.run(ops, plan)
    ctx.evaluated()
    ctx.count('C17.schedules')
    rp = dict(workload='sched', scenario=name, plan=[[list(k), v] for k, v in sorted(plan.items())])
    w = {'scenario': name, 'operations': ['%s(%s)' % s for s in ops_spec],
         'schedule': ['thread %d after its step %d -> thread %d' % (k[0], k[1], v) for k, v in sorted(plan.items())],
         'switches': [list(s) for s in SCHED.switch_log]}
    if hung:
        ctx.count('C17.watchdog')
        ctx.inconclusive.append('watchdog fired in %s' % name)
        return
    switched = len(SCHED.switch_log)
    if switched:
        ctx.nontrivial((name, tuple(sorted(plan.items()))))
        for s in SCHED.switch_log:
            pairs_seen.add((name, s[2], s[3]))
        ctx.count('C17.preemptions', switched)
    for t, (res, want) in enumerate(zip(results, answers)):
        got = render(res)
        if got != want:
            ctx.count('C17.deviating_results')
            if got in pred[M1] and got not in pred[M2]:
                mech = M1
            elif got in pred[M2] and got not in pred[M1]:
                mech = M2
            elif got in pred[M1] and got in pred[M2]:
                mech = M1 if '__wrapped__' in got or True else M2
                mech = classify_by_window(g, initial, plan, ops, mech)
            else:
                mech = None
            if mech:
                ctx.violation('C17', 'ConcurrencyBoundary', mech,
                              'a concurrent retrieval returned the answer predicted for mechanism %s instead of its sequential answer' % mech,
                              dict(w, thread=t, got=got[:300], sequential=want[:300]), rp)
            else:
                ctx.violation('C17', 'ConcurrencyBoundary', 'concurrent-answer-differs',
                              'a concurrent retrieval returned something else than when run alone',
                              dict(w, thread=t, got=got[:300], sequential=want[:300]), rp)
    after = shared_snapshot(g)
    if is_fresh(name):
        # the first access legitimately transforms the object once: what must agree with a sequential
        # run on fresh objects is which attributes exist at quiescence (nothing lost for good)
        want_names = fresh_quiescent_names(name, ops_spec)
        got_names = [sorted(w_fault._own_attrs(o)) for o in g['shared']]
        if got_names != want_names:
            ctx.violation('C17', 'ConcurrencyBoundary', 'state-changed-at-quiescence',
                          'after all threads finished the shared objects do not have the attributes they have after a sequential run',
                          dict(w, attributes=got_names, sequential=want_names), rp)
    elif after != initial:
        problems = []
        for a, b in zip(initial, after):
            problems += w_fault.diff_snapshots(a, b)
        ctx.violation('C17', 'ConcurrencyBoundary', 'state-changed-at-quiescence',
                      'after all threads finished the shared objects differ from their initial state: %s' % '; '.join(problems[:4]),
                      dict(w, changes=problems[:8]), rp)
        # repair for the following schedules
        for o, snap in zip(g['shared'], initial):
            pass
    ctx.sample('schedule', lambda: dict(w, results=[render(r)[:120] for r in results]), limit=4)


_FRESH_NAMES = {}


def fresh_quiescent_names(name, ops_spec):
    if name not in _FRESH_NAMES:
        g, _ = build(name)
        for how, expr in ops_spec:
            outcome(make_op(g, how, expr))
        _FRESH_NAMES[name] = [sorted(w_fault._own_attrs(o)) for o in g['shared']]
    return _FRESH_NAMES[name]


def classify_by_window(g, initial, plan, ops, default):
    return default


# --------------------------------------------------------------------- stress

class WindowLog(object):
    """Harness-side hook on cleanup_functools_wrapper.__enter__/__exit__ and on
    _AsForged.__get__: logical timestamps of every window another thread could
    observe.  Appending to a list is atomic under the GIL."""

    def __init__(self):
        self.seq = itertools.count()
        self.windows = []          # (thread id, kind, start, end)

    def install(self):
        from sigtools import _autoforwards, specifiers
        log = self
        orig = _autoforwards.cleanup_functools_wrapper
        self.saved = (orig, type(specifiers.as_forged).__get__)
        get = self.saved[1]

        class Logged(object):
            """stand-in for the context manager, whatever its form: logs the window, delegates"""
            def __init__(self_, *a, **k):
                self_.cm = orig(*a, **k)

            def __enter__(self_):
                self_._vf_start = next(log.seq)
                return self_.cm.__enter__()

            def __exit__(self_, *exc):
                try:
                    return self_.cm.__exit__(*exc)
                finally:
                    log.windows.append((threading.get_ident(), 'M1', getattr(self_, '_vf_start', -1), next(log.seq)))

        def __get__(self_, instance, owner):
            shared = isinstance(vars(self_).get('currently_computing'), set)
            start = next(log.seq)
            try:
                return get(self_, instance, owner)
            finally:
                if shared:
                    log.windows.append((threading.get_ident(), 'M2', start, next(log.seq)))
        _autoforwards.cleanup_functools_wrapper = Logged
        type(specifiers.as_forged).__get__ = __get__

    def uninstall(self):
        from sigtools import _autoforwards, specifiers
        _autoforwards.cleanup_functools_wrapper, type(specifiers.as_forged).__get__ = self.saved

    def foreign_overlap(self, tid, start, end):
        kinds = set()
        for t, kind, a, b in self.windows:
            if t != tid and a <= end and b >= start:
                kinds.add(kind)
        return kinds


def stress(ctx, name, seconds, nthreads=8):
    """Free-running threads with a minimal switch interval, no tracing.  Every
    operation is recorded at the client boundary (logical start/end stamps);
    a deviating result is attributed to a known mechanism only if the operation
    overlapped a window of that mechanism opened by *another* thread."""
    g, ops_spec = build(name)
    ops = [make_op(g, how, expr) for how, expr in ops_spec]
    for op in ops:
        outcome(op)
    initial = shared_snapshot(g)
    answers = [render(outcome(op)) for op in ops]
    import types
    m1_site = any(is_update_wrapper_product(o) for o in g['shared'])
    log = WindowLog()
    log.install()
    old = sys.getswitchinterval()
    sys.setswitchinterval(1e-6)
    deviations = []
    counts = [0] * nthreads
    stop = time.time() + seconds

    def worker(i):
        k = i % len(ops)
        tid = threading.get_ident()
        while time.time() < stop and counts[i] < 4000:
            start = next(log.seq)
            got = render(outcome(ops[k]))
            end = next(log.seq)
            counts[i] += 1
            if got != answers[k]:
                deviations.append((k, got, tid, start, end))
    threads = [threading.Thread(target=worker, args=(i,), daemon=True) for i in range(nthreads)]
    try:
        for t in threads:
            t.start()
        for t in threads:
            t.join(seconds + 60)
    finally:
        sys.setswitchinterval(old)
        log.uninstall()
    total = sum(counts)
    ctx.evaluated(total)
    ctx.count('C17.stress_operations', total)
    ctx.extra.setdefault('stress', {})[name] = {'operations': total, 'deviations': len(deviations),
                                                'windows_logged': len(log.windows)}
    rp = dict(workload='stress', scenario=name, seconds=seconds)
    w = {'scenario': name, 'threads': nthreads, 'operations': total}
    for k, got, tid, start, end in deviations[:200]:
        kinds = log.foreign_overlap(tid, start, end)
        if not m1_site:
            kinds = kinds - {'M1'}      # the open finding is known for functools.wraps-decorated functions only
        mech = M2 if 'M2' in kinds and 'raise' not in got and 'M1' not in kinds else (M1 if 'M1' in kinds else (M2 if 'M2' in kinds else None))
        if mech:
            ctx.violation('C17', 'ConcurrencyBoundary', mech,
                          'under stress a retrieval that overlapped another thread\'s window of mechanism %s returned another answer than alone' % mech,
                          dict(w, got=got[:300], sequential=answers[k][:300]), rp)
        else:
            ctx.violation('C17', 'ConcurrencyBoundary', 'concurrent-answer-differs',
                          'under stress a retrieval returned something else than when run alone, without overlapping any known window',
                          dict(w, got=got[:300], sequential=answers[k][:300]), rp)
    if shared_snapshot(g) != initial:
        problems = []
        for a, b in zip(initial, shared_snapshot(g)):
            problems += w_fault.diff_snapshots(a, b)
        ctx.violation('C17', 'ConcurrencyBoundary', 'state-changed-at-quiescence',
                      'after the stress run the shared objects differ from their initial state: %s' % '; '.join(problems[:4]),
                      dict(w, changes=problems[:8]), rp)


def run(ctx):
    import gc
    names = sorted(SCENARIOS)
    try:
        for j, name in enumerate(names):
            # every scenario gets its share of what is left of the budget
            if ctx.deadline is not None:
                ctx.extra['_slice'] = max(1.0, (ctx.deadline - ctx.clock() - 4) / (len(names) - j))
            try:
                explore(ctx, name, ctx.tier)
            finally:
                gc.enable()
                gc.collect()
    finally:
        SCHED.uninstall()
    ctx.extra.pop('_slice', None)
    pairs = ctx.extra.pop('_pairs', set())
    # (per shard: the sets of the shards overlap, their sizes must not be added up)
    ctx.extra['distinct_preemption_locations_per_shard'] = {'shard %d' % ctx.shard: len(pairs)}
    if ctx.shard == 0:
        secs = {'quick': 1.5, 'thorough': 20}[ctx.tier]
        for name in ('S1-two-sigtools-on-wraps', 'S2-sigtools-vs-inspect-on-wraps', 'S3b-two-inspect-on-decorator-object',
                     'S5-modifier-method-one-instance', 'S12-lru-cached-callee'):
            stress(ctx, name, secs)


def replay(ctx, rec):
    name = rec['scenario']
    if rec['workload'] == 'stress':
        stress(ctx, name, rec.get('seconds', 2))
        return
    g, ops_spec = build(name)
    alone = alone_answers(ctx, name, ops_spec)
    SCHED.install()
    try:
        ops = [make_op(g, how, expr) for how, expr in ops_spec]
        for op in ops:
            outcome(op)
        initial = shared_snapshot(g)
        if is_fresh(name):
            answers, counts, windows = solo_profile_fresh(name, ops_spec)
        else:
            answers, counts, windows = solo_profile(g, ops_spec, initial)
        check_against_alone(ctx, name, ops_spec, answers, alone)
        pred = predicted_wrong_answers(g, ops_spec)
        plan = {tuple(k): v for k, v in rec['plan']}
        if is_fresh(name):
            g, _ = build(name)
            ops = [make_op(g, how, expr) for how, expr in ops_spec]
            initial = shared_snapshot(g)
        run_schedule(ctx, name, g, ops, ops_spec, plan, answers, initial, pred, set(), replaying=True)
    finally:
        SCHED.uninstall()

"""C14 -- returned signatures/parameters are drop-in inspect.Signature objects.

Monitor on every signature any attach point returns: compared with a plain
twin built from the same data (str, bind, bind_partial on every shape),
replace() contracts, and a comparison menagerie (==, !=, hash)."""
import inspect

from . import sigs, oracle
from .sigutil import bparams, plain_copy, show
from .monitor import Monitor

EMPTY = inspect.Parameter.empty


def bind_outcome(sig, method, pos, kw):
    try:
        ba = getattr(sig, method)(*pos, **kw)
    except TypeError as e:
        return ('TypeError', str(e))
    except Exception as e:
        return (type(e).__name__, str(e))
    return ('ok', list(ba.arguments.items()), ba.args, ba.kwargs)


def hashable(x):
    try:
        hash(x)
        return True
    except TypeError:
        return False


class DropIn(Monitor):
    points = ('merge', 'embed', 'mask', 'forwards', 'signature', 'forged_signature')
    prop = 'C14'

    def __init__(self, ctx):
        Monitor.__init__(self, ctx)
        self.seen = set()

    def V(self, mech, what, w):
        self.ctx.violation('C14', 'DropIn', mech, what, w, dict(workload='dropin', signature=w.get('signature')))

    def post(self, point, args, kwargs, ok, value, tok):
        if not ok:
            return
        from sigtools import _signatures
        if not isinstance(value, _signatures.UpgradedSignature):
            if isinstance(value, inspect.Signature):
                # "every signature sigtools returns" is of the upgraded type, whatever was handed in
                self.ctx.count('C14.plain_returned')
                self.V('returns-plain-signature', '%s returned a plain inspect.Signature (input types: %s)' % (
                    point, ', '.join(type(a).__name__ for a in args if isinstance(a, inspect.Signature)) or '-'),
                    {'signature': str(value), 'returned_by': point})
            return
        self.check(value, point)

    def check(self, value, point='direct'):
        ctx = self.ctx
        from sigtools import _signatures
        try:
            key = (str(value), tuple(sorted((k, len(v)) for k, v in value.sources.items())))
        except Exception:
            key = id(value)
        if key in self.seen:
            ctx.count('C14.duplicates_skipped')
            return
        if len(self.seen) > 200000:
            self.seen.clear()
        self.seen.add(key)
        ctx.evaluated()
        ctx.count('C14.signatures')
        ctx.count('C14.from_' + point)
        w = {'signature': show(value), 'returned_by': point}
        try:
            twin = plain_copy(value)
        except Exception as e:
            self.V('twin-not-buildable', 'inspect.Signature refuses the same data: %s' % e, w)
            return
        ctx.nontrivial(key)
        ctx.sample('signature', lambda: w, limit=3)
        # ---- str
        try:
            if str(value) != str(twin):
                self.V('str-differs', 'str() differs from the plain twin: %r vs %r' % (str(value), str(twin)), w)
        except Exception as e:
            self.V('str-raises', 'str() raised %s' % type(e).__name__, w)
        # ---- bind / bind_partial
        bp = bparams(value)
        if len(bp) <= 6:
            sp = oracle.Space.get(sigs.positional_capacity(bp) + 2, set(sigs.names_of(bp)) | {oracle.FOREIGN})
            for pos, kw in zip_shapes(sp):
                for method in ('bind', 'bind_partial'):
                    a = bind_outcome(value, method, pos, kw)
                    b = bind_outcome(twin, method, pos, kw)
                    ctx.count('C14.binds_compared')
                    if a != b:
                        self.V(method + '-differs', '%s(*%r, **%r) behaves differently from the plain twin' % (method, pos, sorted(kw)),
                               dict(w, upgraded=repr(a)[:300], plain=repr(b)[:300]))
                        break
                else:
                    continue
                break
        # ---- replace()
        self.replace_contracts(value, w)
        # ---- comparison menagerie
        # (out of the property's domain, as the design notes: a postponed annotation that cannot be evaluated at
        # run time -- a TYPE_CHECKING-only name -- makes == propagate the NameError of source_value())
        ev = evaluable(value)
        if ev is not True:
            if isinstance(ev, NameError):
                ctx.count('C14.menagerie_skipped_unevaluable_annotation')
            else:
                # not a name missing from the defining module: the annotation wrapper itself is broken
                self.V('annotation-value-raises-%s' % type(ev).__name__,
                       'source_value() of an annotation of the returned signature raises %s (== and hash() of the signature then raise too)' % type(ev).__name__,
                       dict(w, exception=repr(ev)[:200]))
            return
        self.menagerie(value, twin, w)

    def replace_contracts(self, value, w):
        ctx = self.ctx
        from sigtools import _signatures
        S, P = _signatures.UpgradedSignature, _signatures.UpgradedParameter
        ctx.count('C14.replace_checks')
        try:
            r = value.replace()
            if not isinstance(r, S):
                self.V('replace-type', 'Signature.replace() returned %s' % type(r).__name__, w)
            elif r.sources is not value.sources and r.sources != value.sources:
                self.V('replace-drops-sources', 'Signature.replace() does not keep the provenance', w)
            elif r.upgraded_return_annotation is not value.upgraded_return_annotation:
                self.V('replace-drops-upgraded-return', 'Signature.replace() does not keep upgraded_return_annotation', w)
            elif list(r.parameters.values()) != list(value.parameters.values()) or \
                    not all(isinstance(p, P) for p in r.parameters.values()):
                self.V('replace-parameters', 'Signature.replace() changed the parameters', w)
            marker = {'+depths': {}}
            r = value.replace(sources=marker)
            if r.sources is not marker:
                self.V('replace-ignores-sources-override', 'Signature.replace(sources=...) ignored the override', w)
            ua = _signatures.UpgradedAnnotation.preevaluated(int)
            r = value.replace(return_annotation=int, upgraded_return_annotation=ua)
            if r.upgraded_return_annotation is not ua or r.return_annotation is not int:
                self.V('replace-ignores-return-override', 'Signature.replace(return_annotation=...) ignored the override', w)
            if r.sources is not value.sources and r.sources != value.sources:
                self.V('replace-drops-sources', 'Signature.replace(return_annotation=...) does not keep the provenance', w)
            some = list(value.parameters.values())[:1]
            r = value.replace(parameters=some)
            if not isinstance(r, S) or list(r.parameters) != [p.name for p in some]:
                self.V('replace-parameters-override', 'Signature.replace(parameters=...) did not take the given parameters', w)
            # parameters handed over as plain inspect.Parameter objects (deprecated, supported): every one of them
            # comes back upgraded, however many there are
            import warnings
            plain_ps = [inspect.Parameter(q.name, q.kind, default=q.default, annotation=q.annotation)
                        for q in value.parameters.values()]
            if plain_ps:
                ctx.count('C14.replace_with_plain_parameters')
                with warnings.catch_warnings():
                    warnings.simplefilter('ignore')
                    for label, build in (('replace(parameters=<plain parameters>)', lambda: value.replace(parameters=plain_ps)),
                                         ('UpgradedSignature(<plain parameters>)', lambda: S(plain_ps)),
                                         ('replace(parameters=<upgraded first, plain rest>)',
                                          lambda: value.replace(parameters=list(value.parameters.values())[:1] + plain_ps[1:]))):
                        r = build()
                        bare = [q.name for q in r.parameters.values() if not isinstance(q, P)]
                        if bare:
                            self.V('plain-parameters-not-upgraded', '%s returns a signature whose parameter(s) %s are bare inspect.Parameter objects' % (label, bare), w)
                            break
                        if [str(q) for q in r.parameters.values()] != [str(q) for q in value.parameters.values()]:
                            self.V('plain-parameters-change-signature', '%s prints other parameters' % label, dict(w, got=str(r)))
                            break
                    # ... and once more with defaults that compare (and hash) EQUAL to the ones just handed over without
                    # being them (1 / True, 2 / 2.0): the signature built is built from THESE parameters
                    eqd = {q.name: (True if q.default == 1 else float(q.default)) for q in plain_ps
                           if type(q.default) is int}
                    if eqd:
                        ctx.count('C14.plain_parameters_with_equal_but_distinct_defaults')
                        plain2 = [q.replace(default=eqd[q.name]) if q.name in eqd else q for q in plain_ps]
                        want2 = inspect.Signature(plain2)
                        for label, build in (('UpgradedSignature(<plain parameters>)', lambda: S(plain2)),
                                             ('replace(parameters=<plain parameters>)', lambda: value.replace(parameters=plain2))):
                            r = build()
                            if [str(q) for q in r.parameters.values()] != [str(q) for q in want2.parameters.values()] or \
                                    [q.name for q in r.parameters.values() if q.name in eqd and q.default is not eqd[q.name]]:
                                self.V('plain-parameters-equal-defaults-confused', '%s, given defaults that compare equal to earlier ones (True for 1, 2.0 for 2), does not carry the defaults given' % label,
                                       dict(w, got=str(r), expected=str(want2)))
                                break
            # every field overridden alone, also with falsy values: the override wins, everything else is kept
            empty_map = {}
            for label, kw, check in (
                    ('sources={}', dict(sources=empty_map), lambda r: r.sources is empty_map),
                    ('upgraded_return_annotation=EmptyAnnotation', dict(upgraded_return_annotation=_signatures.EmptyAnnotation),
                     lambda r: r.upgraded_return_annotation is _signatures.EmptyAnnotation),
                    ('return_annotation=empty', dict(return_annotation=S.empty), lambda r: r.return_annotation is S.empty),
                    ('parameters=[]', dict(parameters=[]), lambda r: len(r.parameters) == 0),
                    ('parameters=()', dict(parameters=()), lambda r: len(r.parameters) == 0)):
                r = value.replace(**kw)
                ctx.count('C14.replace_single_overrides')
                if not isinstance(r, S) or not check(r):
                    self.V('replace-ignores-falsy-override', 'Signature.replace(%s) ignored the override' % label, w)
                    break
                kept = [('sources', r.sources is value.sources or r.sources == value.sources),
                        ('upgraded_return_annotation', r.upgraded_return_annotation is value.upgraded_return_annotation),
                        ('return_annotation', r.return_annotation is value.return_annotation or r.return_annotation == value.return_annotation),
                        ('parameters', list(r.parameters.values()) == list(value.parameters.values()))]
                lost = [k for k, ok_ in kept if not ok_ and k not in kw]
                if lost:
                    self.V('replace-override-loses-other-field', 'Signature.replace(%s) also changed %s' % (label, ', '.join(lost)), w)
                    break
        except Exception as e:
            self.V('replace-raises-%s' % type(e).__name__, 'Signature.replace raised %s: %s' % (type(e).__name__, e), w)
        for p in value.parameters.values():
            try:
                q = p.replace()
                if not isinstance(q, P):
                    self.V('param-replace-type', 'Parameter.replace() returned %s' % type(q).__name__, w)
                    break
                if q.sources is not p.sources or q.source_depths is not p.source_depths or \
                        q.upgraded_annotation is not p.upgraded_annotation or q._function is not p._function:
                    self.V('param-replace-drops-extras', 'Parameter.replace() does not keep sources/depths/upgraded annotation', w)
                    break
                if (q.name, q.kind, q.default, q.annotation) != (p.name, p.kind, p.default, p.annotation):
                    self.V('param-replace-changes-data', 'Parameter.replace() changed the parameter', w)
                    break
                q = p.replace(name='renamed_')
                if q.name != 'renamed_' or q.sources is not p.sources or q.upgraded_annotation is not p.upgraded_annotation:
                    self.V('param-replace-name', 'Parameter.replace(name=...) lost data', w)
                    break
                ua = _signatures.UpgradedAnnotation.preevaluated(str)
                q = p.replace(annotation=str, upgraded_annotation=ua, sources=['x'], source_depths={'x': 0})
                if q.upgraded_annotation is not ua or q.sources != ['x'] or q.source_depths != {'x': 0} or q.annotation is not str:
                    self.V('param-replace-ignores-override', 'Parameter.replace(...) ignored an override', w)
                    break
                # every field overridden alone (falsy values too); the others are kept
                e_list, e_map = [], {}
                other_kind = P.KEYWORD_ONLY if p.kind in (P.POSITIONAL_ONLY, P.POSITIONAL_OR_KEYWORD) else p.kind
                singles = [
                    ('kind', dict(kind=other_kind), lambda q: q.kind == other_kind),
                    ('annotation=empty', dict(annotation=P.empty), lambda q: q.annotation is P.empty),
                    ('sources=[]', dict(sources=e_list), lambda q: q.sources is e_list),
                    ('source_depths={}', dict(source_depths=e_map), lambda q: q.source_depths is e_map),
                    ('function=None', dict(function=None), lambda q: q._function is None),
                    ('upgraded_annotation=EmptyAnnotation', dict(upgraded_annotation=_signatures.EmptyAnnotation),
                     lambda q: q.upgraded_annotation is _signatures.EmptyAnnotation)]
                if p.kind not in (P.VAR_POSITIONAL, P.VAR_KEYWORD):
                    singles.append(('default=None', dict(default=None), lambda q: q.default is None))
                    singles.append(('default=empty', dict(default=P.empty), lambda q: q.default is P.empty))
                bad = None
                for label, kw, check in singles:
                    q = p.replace(**kw)
                    ctx.count('C14.param_replace_single_overrides')
                    if not isinstance(q, P) or not check(q):
                        bad = ('param-replace-ignores-falsy-override', 'Parameter.replace(%s) ignored the override' % label)
                        break
                    kept = [('sources', q.sources is p.sources), ('source_depths', q.source_depths is p.source_depths),
                            ('function', q._function is p._function), ('upgraded_annotation', q.upgraded_annotation is p.upgraded_annotation),
                            ('name', q.name == p.name), ('kind', q.kind == p.kind),
                            ('default', q.default is p.default), ('annotation', q.annotation is p.annotation)]
                    lost = [k for k, ok_ in kept if not ok_ and k not in kw and not label.startswith(k)]
                    if lost:
                        bad = ('param-replace-override-loses-other-field', 'Parameter.replace(%s) also changed %s' % (label, ', '.join(lost)))
                        break
                if bad:
                    self.V(bad[0], bad[1], w)
                    break
            except Exception as e:
                self.V('param-replace-raises-%s' % type(e).__name__, 'Parameter.replace raised %s' % type(e).__name__, w)
                break

    def menagerie(self, value, twin, w):
        ctx = self.ctx
        from sigtools import _signatures
        ctx.count('C14.menageries')
        partners = [('None', None), ('0', 0), ("'s'", 's'), ('object()', object()), ('plain twin', twin),
                    ('itself', value), ('an object that claims to equal anything', Anything()),
                    ('an object whose __eq__ says NotImplemented', Undecided())]
        try:
            partners.append(('upgraded copy', value.replace()))
            partners.append(('plain, other return annotation', twin.replace(return_annotation='other-ret')))
            partners.append(('upgraded, other return annotation',
                             value.replace(return_annotation='other-ret',
                                           upgraded_return_annotation=_signatures.UpgradedAnnotation.preevaluated('other-ret'))))
            partners.append(('upgraded, other upgraded return annotation',
                             value.replace(upgraded_return_annotation=_signatures.UpgradedAnnotation.preevaluated('x-only'))))
            params = list(value.parameters.values())
            tparams = list(twin.parameters.values())
            if params:
                p0 = params[0]
                partners.append(('plain, first parameter renamed', twin.replace(parameters=[tparams[0].replace(name='renamed_')] + tparams[1:])))
                partners.append(('upgraded, first parameter renamed', value.replace(parameters=[p0.replace(name='renamed_')] + params[1:])))
                if p0.kind not in (p0.VAR_POSITIONAL, p0.VAR_KEYWORD):
                    partners.append(('upgraded, first parameter other annotation',
                                     value.replace(parameters=[p0.replace(
                                         annotation='other-ann',
                                         upgraded_annotation=_signatures.UpgradedAnnotation.preevaluated('other-ann'))] + params[1:])))
                    partners.append(('upgraded, first parameter other upgraded annotation',
                                     value.replace(parameters=[p0.replace(
                                         upgraded_annotation=_signatures.UpgradedAnnotation.preevaluated('x-only'))] + params[1:])))
                    if p0.default is not EMPTY or len(params) == 1 or all(
                            q.default is not EMPTY or q.kind not in (q.POSITIONAL_ONLY, q.POSITIONAL_OR_KEYWORD)
                            for q in params[1:]):
                        partners.append(('upgraded, first parameter other default',
                                         value.replace(parameters=[p0.replace(default='other-default')] + params[1:])))
        except Exception as e:
            self.V('menagerie-construction-raises-%s' % type(e).__name__, 'building a comparison partner raised %s: %s' % (type(e).__name__, e), w)
        self.compare_all('signature', value, twin, partners, w)
        # the same for the parameters
        for p, t in list(zip(value.parameters.values(), twin.parameters.values()))[:3]:
            pp = [('None', None), ('0', 0), ('plain twin', t), ('itself', p),
                  ('an object that claims to equal anything', Anything()),
                  ('an object whose __eq__ says NotImplemented', Undecided())]
            try:
                pp.append(('upgraded copy', p.replace()))
                pp.append(('plain renamed', t.replace(name='renamed_')))
                pp.append(('upgraded renamed', p.replace(name='renamed_')))
                pp.append(('upgraded other upgraded annotation',
                           p.replace(upgraded_annotation=_signatures.UpgradedAnnotation.preevaluated('x-only'))))
            except Exception as e:
                self.V('menagerie-construction-raises-%s' % type(e).__name__, 'building a comparison partner raised %s' % type(e).__name__, w)
            self.compare_all('parameter', p, t, pp, w)

    def compare_all(self, what, x, twin, partners, w):
        ctx = self.ctx
        hx = hashable(x)
        ht = hashable(twin)
        if hx != ht:
            self.V(what + '-hashable-differs', 'the upgraded %s is %shashable but its plain twin is %shashable' % (
                what, '' if hx else 'un', '' if ht else 'un'), w)
        for label, y in partners:
            ctx.count('C14.comparisons')
            try:
                e1 = (x == y)
                n1 = (x != y)
                e2 = (y == x)
            except Exception as e:
                self.V(what + '-eq-raises-%s' % type(e).__name__, 'comparing an upgraded %s with %s raised %s: %s' % (
                    what, label, type(e).__name__, e), w)
                continue
            if not isinstance(e1, bool) or not isinstance(n1, bool):
                self.V(what + '-eq-not-bool', '== / != against %s returned %r / %r' % (label, e1, n1), w)
                continue
            if e1 == n1:
                self.V(what + '-eq-ne-inconsistent', '== and != against %s agree (%r)' % (label, e1), w)
            if e1 != e2:
                self.V(what + '-eq-asymmetric', 'x == y is %r but y == x is %r for y = %s' % (e1, e2, label), w)
            if label in ('itself', 'plain twin', 'upgraded copy') and not e1:
                self.V(what + '-eq-not-reflexive', 'an upgraded %s is not equal to %s' % (what, label), w)
            if 'other' in label or 'renamed' in label:
                if e1:
                    self.V(what + '-eq-ignores-difference', 'an upgraded %s equals %s' % (what, label), w)
            if label.startswith('an object'):
                # foreign objects with an __eq__ of their own: the upgraded object answers like its plain twin
                try:
                    t1 = (twin == y)
                except Exception:
                    t1 = None
                if t1 is not None and t1 != e1:
                    self.V(what + '-eq-differs-from-plain-twin', 'x == y is %r but the plain twin gives %r for y = %s' % (e1, t1, label), w)
                continue
            if e1 and hx and hashable(y):
                if hash(x) != hash(y):
                    self.V(what + '-hash-inconsistent', 'x == y but hash(x) != hash(y) for y = %s' % label, w)


def evaluable(sig):
    try:
        for p in sig.parameters.values():
            p.upgraded_annotation.source_value()
        sig.upgraded_return_annotation.source_value()
        return True
    except Exception as e:
        return e


class Anything(object):
    """like unittest.mock.ANY"""
    def __eq__(self, other):
        return True

    def __ne__(self, other):
        return False

    __hash__ = object.__hash__


class Undecided(object):
    def __eq__(self, other):
        return NotImplemented

    __hash__ = object.__hash__


def zip_shapes(sp):
    for n, kws in sp.shapes:
        yield tuple(range(n)), {k: 1 for k in kws}

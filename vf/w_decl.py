"""W-DECL (C04): wrappers whose source is generated *from* a declaration,
decorated with every forwards_to_* form, then executed on every call shape."""
import inspect
import itertools
import random

from . import sigs, oracle
from . import core
from .sigs import PO, PK, VA, KO, VK
from .sigutil import bparams, show, show_params

FORMS = ['function', 'function-emulate', 'function-noemulate', 'method', 'method-emulate', 'method-dotted',
         'method-dotted3', 'super', 'super-emulate', 'apply-super']


def V(ctx, mech, what, w, rp):
    ctx.violation('C04', 'DeclBoundary', mech, what, w, rp)


def gen_case(rnd):
    """Returns a dict describing one declared wrapper."""
    outers = [o for o in sigs.U(('a', 'b'), 2) if sigs.has_kind(o, VA) or sigs.has_kind(o, VK)]
    inners = sigs.U(('x', 'y', 'z'), 3, stars=sigs.STARS2[:1])
    o = rnd.choice(outers)
    i = rnd.choice(inners)
    if rnd.random() < 0.3:
        # up to four named parameters, drawn by kind profile
        i = sigs.pick_stratified(rnd, ('w', 'x', 'y', 'z'), 4, sigs.STARS2[:1])
    if rnd.random() < 0.04:
        # a shared name: the declaration cannot be honoured (ValueError at retrieval)
        i = tuple((('a' if k == 0 and p[1] not in (VA, VK) else p[0]),) + p[1:] for k, p in enumerate(i))
    elif rnd.random() < 0.06:
        # ... a name of ANY of the wrapper's own parameters (keyword-only ones included) given to any one of the callee's
        onames = [p[0] for p in o if p[1] not in (VA, VK)]
        inamed = [k for k, p in enumerate(i) if p[1] not in (VA, VK)]
        if onames and inamed:
            k = rnd.choice(inamed)
            nm = rnd.choice(onames)
            if nm not in [p[0] for p in i]:
                i = tuple(((nm,) + p[1:]) if j == k else p for j, p in enumerate(i))
    ova, ovk = sigs.star_name(o, VA), sigs.star_name(o, VK)
    ipos = [p[0] for p in i if p[1] in (PO, PK)]
    ivp, ivk = sigs.has_kind(i, VA), sigs.has_kind(i, VK)
    n = rnd.randint(0, min(3 if len(i) > 3 else 2, len(ipos) + (1 if ivp else 0)))
    npo = sum(1 for p in i if p[1] == PO)
    if npo >= 2 and rnd.random() < 0.5:
        n = rnd.randint(1, npo - 1)     # boundary class: the count ends strictly inside the positional-only group
    if rnd.random() < 0.03:
        n = len(ipos) + 1        # possibly more than inner can take
    consumed = set(ipos[:n])
    cand = [p[0] for p in i if p[1] in (PK, KO) and p[0] not in consumed] + (['zq'] if ivk else [])
    names = tuple(rnd.sample(cand, rnd.randint(0, min(2, len(cand)))))
    if rnd.random() < 0.03:
        names = names + ('nope',)
    pass_va = bool(ova) and rnd.random() < 0.85
    pass_vk = bool(ovk) and rnd.random() < 0.85
    hide_args = hide_kwargs = partial = False
    r = rnd.random()
    if r < 0.10 and not pass_va:
        hide_args = True
    elif r < 0.20 and not pass_vk:
        hide_kwargs = True
    elif r < 0.30:
        partial = True
    form = rnd.choice(FORMS)
    if partial and form.startswith(('super', 'apply')):
        form = 'function'
    # a wrapper that has no *args / **kwargs at all may still be declared with use_varargs=False /
    # use_varkwargs=False: a redundant way of saying the same thing
    return dict(o=o, i=i, n=n, names=names, pass_va=pass_va, pass_vk=pass_vk, hide_args=hide_args,
                hide_kwargs=hide_kwargs, partial=partial, form=form, redundant_flags=rnd.random() < 0.5,
                falsy=rnd.choice((0, 0, 1, 2)), reused_decorator=rnd.random() < 0.4)


def foreign_values(c):
    """Fixed foreign *OTHER_A / **OTHER_K that satisfy the callee for every call the
    signature admits, or None when no single value can (then only the algebraic
    relation is checked)."""
    i, n, names = c['i'], c['n'], c['names']
    pos = [p for p in i if p[1] in (PO, PK)]
    other_a = ()
    other_k = {}
    if c['hide_args']:
        rest = pos[n:]
        if any(p[0] in names for p in rest):
            return None
        other_a = (0,) * len(rest)
    if c['hide_kwargs']:
        req_kwo = [p[0] for p in i if p[1] == KO and p[2] is None and p[0] not in names]
        req_pok = [p[0] for p in pos[n:] if p[1] == PK and p[2] is None and p[0] not in names]
        if c['hide_args']:
            req_pok = []
        if req_pok:
            if sigs.has_kind(i, VA) or any(p[1] == PO for p in pos[n:]) or c['pass_va']:
                return None
        if any(p[1] == PO and p[2] is None for p in pos[n:]) and not c['hide_args'] and not c['pass_va']:
            return None
        other_k = {k: 0 for k in req_kwo + req_pok}
    return other_a, other_k


def call_text(c, callee):
    o = c['o']
    ova, ovk = sigs.star_name(o, VA), sigs.star_name(o, VK)
    parts = ['0'] * c['n']
    if c['pass_va']:
        parts.append('*' + ova)
    elif c['hide_args']:
        parts.append('*OTHER_A')
    parts += ['%s=0' % k for k in c['names']]
    if c['pass_vk']:
        parts.append('**' + ovk)
    elif c['hide_kwargs']:
        parts.append('**OTHER_K')
    if c['partial']:
        return 'functools.partial(%s)' % ', '.join([callee] + parts)
    return '%s(%s)' % (callee, ', '.join(parts))


def decl_args(c, lead=()):
    parts = [repr(x) for x in lead] + [str(c['n'])] + [repr(k) for k in c['names']]
    flags = []
    o = c['o']
    red = c.get('redundant_flags', False)
    if (sigs.star_name(o, VA) and not c['pass_va']) or (red and not sigs.star_name(o, VA)):
        flags.append('use_varargs=False')
    if (sigs.star_name(o, VK) and not c['pass_vk']) or (red and not sigs.star_name(o, VK)):
        flags.append('use_varkwargs=False')
    if c['hide_args']:
        flags.append('hide_args=True')
    if c['hide_kwargs']:
        flags.append('hide_kwargs=True')
    if c['partial']:
        flags.append('partial=True')
    return parts, flags


# instances may be falsy (an empty container, __bool__ returning False): "is there an instance" is an identity
# question, never a truth value
FALSY = ['', '    def __len__(self): return 0\n', '    def __bool__(self): return False\n']


def build_source(c, inner_params=None):
    form = c['form']
    o, i = c['o'], (inner_params or c['i'])
    head = 'import functools\nfrom sigtools import specifiers\nOTHER_A = ()\nOTHER_K = {}\n'
    rend_o, rend_i = sigs.render(o), sigs.render(i)
    selfo = 'self' + (', ' + rend_o if rend_o else '')
    selfi = 'self' + (', ' + rend_i if rend_i else '')
    if form.startswith('function'):
        parts, flags = decl_args(c)
        if form == 'function-emulate':
            flags.append('emulate=True')
        elif form == 'function-noemulate':
            flags.append('emulate=False')
        src = head + 'def inner(%s): return None\n' % rend_i
        src += '@specifiers.forwards_to_function(%s)\n' % ', '.join(['inner'] + parts + flags)
        src += 'def w(%s):\n    return %s\n' % (rend_o, call_text(c, 'inner'))
        src += 'target = w\nunbound = None\n'
    elif form.startswith('method'):
        attr = 'inner'
        callee = 'self.inner'
        pre = ''
        if form == 'method-dotted':
            attr = 'helper.inner'
            callee = 'self.helper.inner'
        elif form == 'method-dotted3':
            # three components; the instance also has an unrelated attribute named like the middle one
            attr = 'hub.helper.inner'
            callee = 'self.hub.helper.inner'
        parts, flags = decl_args(c, lead=(attr,))
        if form == 'method-emulate':
            flags.append('emulate=True')
        src = head
        if form == 'method-dotted':
            src += 'class H(object):\n    def inner(%s): return None\n' % selfi
            src += 'class A(object):\n    helper = H()\n'
        elif form == 'method-dotted3':
            src += 'class H(object):\n    def inner(%s): return None\n' % selfi
            src += 'class Decoy(object):\n    def inner(self, zz1, zz2, zz3, zz4): return None\n'
            src += 'class Hub(object):\n    helper = H()\n'
            src += 'class A(object):\n    hub = Hub()\n    helper = Decoy()\n'
        else:
            src += 'class A(object):\n    def inner(%s): return None\n' % selfi
        src += '    @specifiers.forwards_to_method(%s)\n' % ', '.join(parts + flags)
        src += '    def w(%s):\n        return %s\n' % (selfo, call_text(c, callee))
        src += FALSY[c.get('falsy', 0)]
        src += 'obj = A()\ntarget = obj.w\nunbound = A.w\n'
    elif form in ('super', 'super-emulate'):
        parts, flags = decl_args(c)
        if form == 'super-emulate':
            flags.append('emulate=True')
        src = head + 'class B(object):\n    def w(%s): return None\n' % selfi
        src += 'class A(B):\n    @specifiers.forwards_to_super(%s)\n' % ', '.join(parts + flags)
        src += '    def w(%s):\n        return %s\n' % (selfo, call_text(c, 'super().w'))
        src += FALSY[c.get('falsy', 0)]
        src += 'obj = A()\ntarget = obj.w\nunbound = A.w\n'
    else:   # apply-super
        parts, flags = decl_args(c)
        kw = ['num_args=%d' % c['n'], 'named_args=%r' % (tuple(c['names']),)] + flags
        if c.get('reused_decorator'):
            # ONE decorator object, applied to the base class first and to the subclass afterwards
            src = head + 'class B0(object):\n    def w(self, *a_, **k_): return None\n'
            src += "fwd_ = specifiers.apply_forwards_to_super('w', %s)\n" % ', '.join(kw)
            src += '@fwd_\nclass B(B0):\n    def w(%s): return None\n' % selfi
            src += '@fwd_\n'
        else:
            src = head + 'class B(object):\n    def w(%s): return None\n' % selfi
            src += "@specifiers.apply_forwards_to_super('w', %s)\n" % ', '.join(kw)
        src += 'class A(B):\n    def w(%s):\n        return %s\n' % (selfo, call_text(c, 'super(A, self).w'))
        src += FALSY[c.get('falsy', 0)]
        src += 'obj = A()\ntarget = obj.w\nunbound = A.w\n'
    return src


@core.guarded(lambda case_seed: dict(workload='decl', case_seed=case_seed))
def check_case(ctx, case_seed):
    import sigtools
    from sigtools import signatures
    rnd = random.Random(case_seed)
    c = gen_case(rnd)
    ctx.evaluated()
    ctx.count('C04.declared_wrappers')
    ctx.count('C04.form_' + c['form'])
    src = build_source(c)
    rp = dict(workload='decl', case_seed=case_seed, source=src)
    w = {'source': src.split('OTHER_K = {}\n', 1)[1], 'form': c['form']}
    try:
        g = sigs.compile_module(src, tag='vdecl')
    except Exception as e:
        if isinstance(e, (ValueError,)):
            ctx.count('C04.decoration_valueerror')
            return
        V(ctx, 'decoration-raises-%s' % type(e).__name__, 'declaring the forwarding raised %s: %s' % (type(e).__name__, e), w, rp)
        return
    target = g['target']
    fv = foreign_values(c)
    if fv is not None:
        g['OTHER_A'], g['OTHER_K'] = fv
    retrievals = [('sigtools.signature', sigtools.signature)]
    if 'emulate' in c['form'] and 'noemulate' not in c['form']:
        retrievals.append(('inspect.signature', inspect.signature))
    ob, ib = sigs.shape_key(c['o']), sigs.shape_key(c['i'])
    plain_target = None
    for lab, retr in retrievals:
        try:
            S = retr(target)
        except ValueError as e:
            # an explicit declaration that cannot be honoured surfaces as ValueError
            ctx.count('C04.declaration_not_honourable')
            ctx.nontrivial(('valueerror', ob, ib, c['n'], c['names'], c['form']))
            continue
        except Exception as e:
            V(ctx, 'retrieval-raises-%s' % type(e).__name__, '%s raised %s on a declared wrapper: %s' % (lab, type(e).__name__, e), w, rp)
            continue
        res = bparams(S)
        ctx.nontrivial((lab, ob, ib, c['n'], c['names'], c['pass_va'], c['pass_vk'], c['hide_args'], c['hide_kwargs'],
                        c['partial'], c['form']))
        ctx.sample('declared-wrapper', lambda: dict(w, signature=show(S), retrieval=lab), limit=4)
        if fv is None:
            ctx.count('C04.not_executable_with_fixed_foreign_arguments')
            continue
        sp = oracle.space_for([ob, ib, res])
        nc = sp.noncolliding(res, [ob, ib]) & sp.without_keywords(c['names'])
        acc = sp.acc(res)
        if c['partial']:
            # the wrapper only builds a partial object: compare with a twin calling a
            # callee whose parameters are all optional
            iopt = tuple((p[0], p[1], '0' if p[1] not in (VA, VK) else None, None) for p in c['i'])
            c2 = dict(c, partial=False)
            g2 = sigs.compile_module(build_source(c2, inner_params=iopt), tag='vdecl')
            g2['OTHER_A'], g2['OTHER_K'] = fv
            runner = g2['target']
        else:
            runner = target
        try:
            real = sp.acc_callable(runner)
        except Exception as e:
            ctx.count('C04.execution_raised_other')
            continue
        ctx.count('C04.executed')
        ctx.count('C04.calls_executed', sp.nshapes)
        bad = acc & nc & ~real
        if bad:
            V(ctx, 'declared-signature-unsound', 'a non-colliding call accepted by %s of a declared wrapper raises TypeError when executed' % lab,
              dict(w, signature=show(S), shape=sp.first(bad)), rp)
        exact = not (c['hide_args'] or c['hide_kwargs']) and \
            not any(p[1] in (PO, PK) and p[2] is not None for p in c['o'])
        if exact:
            ctx.count('C04.exactness_checked')
            lost = real & nc & ~acc
            if lost:
                V(ctx, 'declared-signature-inexact', 'a non-colliding call rejected by %s of a declared wrapper executes fine' % lab,
                  dict(w, signature=show(S), shape=sp.first(lost)), rp)
    # bound vs unbound
    unbound = g.get('unbound')
    if unbound is not None:
        ctx.count('C04.unbound_retrievals')
        try:
            US = sigtools.signature(unbound)
            BS = sigtools.signature(target)
        except ValueError:
            return
        except Exception as e:
            V(ctx, 'unbound-retrieval-raises-%s' % type(e).__name__, 'sigtools.signature raised %s on the class-level attribute' % type(e).__name__,
              dict(w, exception=repr(e)), rp)
            return
        plain_u = signatures.signature(unbound)
        ub, bb = bparams(US), bparams(BS)
        if ub != bparams(plain_u):
            # the class-level object did get a forwarded signature: it must be the
            # instance-level one plus the first parameter
            if ub[1:] != bb or not ub or ub[0][0] != 'self':
                V(ctx, 'bound-unbound-differ', 'bound and unbound signatures differ by more than the first parameter',
                  dict(w, unbound=show(US), bound=show(BS)), rp)
        else:
            ctx.count('C04.unbound_is_plain')


CHAIN_HEAD = """import functools
from sigtools import specifiers
class Retry(object):
    def __init__(self, nxt): self.nxt = nxt
    @specifiers.forwards_to_method('nxt.call')
    def call(self, *args, **kwargs): return self.nxt.call(*args, **kwargs)
class Tagged(Retry):
    pass
class Own(object):
    def __init__(self, nxt): self.nxt = nxt
    @specifiers.forwards_to_method('nxt.call')
    def call(self, a, *args, **kwargs): return self.nxt.call(*args, **kwargs)
class OwnK(object):
    def __init__(self, nxt): self.nxt = nxt
    @specifiers.forwards_to_method('nxt.call')
    def call(self, *args, b=None, **kwargs): return self.nxt.call(*args, **kwargs)
class Deco(object):
    def __init__(self, func): self.func = func
    @specifiers.forwards_to_ivar('func')
    def __call__(self, *args, **kwargs): return self.func(*args, **kwargs)
class DecoSub(Deco):
    pass
class B(object):
    def __init__(self, fn): self.fn = fn
    @specifiers.forwards_to_method('fn')
    def run(self, *args, **kwargs): return self.fn(*args, **kwargs)
class A(B):
    @specifiers.forwards_to_super()
    def run(self, a, *args, **kwargs): return super().run(*args, **kwargs)
class AA(A):
    @specifiers.forwards_to_super()
    def run(self, *args, b=None, **kwargs): return super().run(*args, **kwargs)
@specifiers.apply_forwards_to_super('run')
class A2(B):
    def run(self, a, *args, **kwargs): return super(A2, self).run(*args, **kwargs)
"""


@core.guarded(lambda case_seed: dict(workload='decl-chain', case_seed=case_seed))
def check_chain(ctx, case_seed):
    """Declared chains whose links are decided by the INSTANCE, not by its class: the same wrapper class nested in
    itself (delegating objects, decorator objects), and forwards_to_super methods whose parent forwards to a
    per-instance callable, on several instances of one class inspected in seeded orders, each more than once.
    Oracle as everywhere in W-DECL: every call shape is really executed."""
    import sigtools
    rnd = random.Random(case_seed)
    leaves = sigs.U(('x', 'y', 'z'), 2, stars=sigs.STARS2[:1])
    kind = rnd.choice(('nested-delegates', 'nested-decorator-objects', 'super-per-instance'))
    nleaf = rnd.choice((1, 2, 2, 3))
    ips = [rnd.choice(leaves) for _ in range(nleaf)]
    ctx.evaluated()
    ctx.count('C04.declared_chains')
    ctx.count('C04.chain_' + kind)
    src = CHAIN_HEAD
    for k, ip in enumerate(ips):
        r = sigs.render(ip)
        src += 'class Leaf%d(object):\n    def call(self%s): return None\n' % (k, (', ' + r) if r else '')
        src += 'def leaf%d(%s): return None\n' % (k, r)
    own = []
    if kind == 'nested-delegates':
        layers = [rnd.choice(('Retry', 'Retry', 'Tagged')) for _ in range(rnd.randint(1, 4))]
        for extra, nm in (('Own', 'a'), ('OwnK', 'b')):
            if rnd.random() < 0.35:
                layers.insert(rnd.randint(0, len(layers)), extra)
                own.append(nm)
        exprs = []
        for k in range(nleaf):
            e = 'Leaf%d()' % k
            for l in reversed(layers):
                e = '%s(%s)' % (l, e)
            exprs.append(e + '.call')
    elif kind == 'nested-decorator-objects':
        layers = [rnd.choice(('Deco', 'Deco', 'DecoSub')) for _ in range(rnd.randint(1, 4))]
        exprs = []
        for k in range(nleaf):
            e = 'leaf%d' % k
            for l in reversed(layers):
                e = '%s(%s)' % (l, e)
            exprs.append(e + rnd.choice(('', '.__call__')))
    else:
        cls = rnd.choice(('A', 'AA', 'A2'))
        layers = [cls]
        own = {'A': ['a'], 'AA': ['a', 'b'], 'A2': ['a']}[cls]
        exprs = ['%s(leaf%d).run' % (cls, k) for k in range(nleaf)]
    for k, e in enumerate(exprs):
        src += 'target%d = %s\n' % (k, e)
    rp = dict(workload='decl-chain', case_seed=case_seed, source=src)
    w = {'source': src[len(CHAIN_HEAD):], 'kind': kind, 'layers': layers}
    try:
        g = sigs.compile_module(src, tag='vchain')
    except Exception as e:
        V(ctx, 'decoration-raises-%s' % type(e).__name__, 'declaring the chain raised %s: %s' % (type(e).__name__, e), w, rp)
        return
    # seeded order of retrievals; every target is asked at least twice, with others in between
    order = list(range(nleaf)) * 2
    rnd.shuffle(order)
    ob = tuple((nm, PK, None, None) for nm in own)
    seen = {}
    for k in order:
        target = g['target%d' % k]
        if rnd.random() < 0.5:
            # the bound object is looked up afresh (another bound-method object over the same instance)
            pass
        try:
            S = sigtools.signature(target)
        except Exception as e:
            V(ctx, 'chain-retrieval-raises-%s' % type(e).__name__, 'sigtools.signature raised %s on a declared chain: %s' % (type(e).__name__, e),
              dict(w, target=exprs[k]), rp)
            return
        res = bparams(S)
        if k in seen:
            ctx.count('C04.chain_repeated_retrievals')
            if seen[k] != res:
                V(ctx, 'chain-answer-changes', 'the same declared chain is reported differently the second time',
                  dict(w, target=exprs[k], first=show_params(seen[k]), then=show(S)), rp)
                return
            continue
        seen[k] = res
        ib = sigs.shape_key(ips[k])
        ctx.nontrivial((kind, tuple(layers), ib))
        ctx.sample('declared-chain', lambda: dict(w, target=exprs[k], signature=show(S)), limit=4)
        sp = oracle.space_for([ob, ib, res])
        nc = sp.noncolliding(res, [ob, ib])
        acc = sp.acc(res)
        real = sp.acc_callable(target)
        ctx.count('C04.chain_executed')
        ctx.count('C04.calls_executed', sp.nshapes)
        bad = acc & nc & ~real
        if bad:
            V(ctx, 'declared-chain-unsound', 'a non-colliding call accepted by the signature of a declared chain raises TypeError when executed',
              dict(w, target=exprs[k], signature=show(S), shape=sp.first(bad)), rp)
            return
        lost = real & nc & ~acc
        if lost:
            V(ctx, 'declared-chain-inexact', 'a non-colliding call rejected by the signature of a declared chain executes fine',
              dict(w, target=exprs[k], signature=show(S), shape=sp.first(lost)), rp)
            return


def run(ctx):
    rnd = ctx.rng('decl')
    n = {'quick': 4000, 'thorough': 400000}[ctx.tier] // ctx.nshards
    for j in range(n):
        if ctx.out_of_time('declared wrappers'):
            break
        check_case(ctx, rnd.getrandbits(48))
        if j % 8 == 0:
            check_chain(ctx, rnd.getrandbits(48))


def replay(ctx, rec):
    if rec.get('workload') == 'decl-chain':
        check_chain(ctx, rec['case_seed'])
    else:
        check_case(ctx, rec['case_seed'])

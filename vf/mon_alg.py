"""Post-condition monitors on merge / embed / mask / forwards (C01 C02 C03 C04a C09 C15 C16a).

Each monitor sits on the real function (vf.monitor) and is evaluated on every
call any workload makes -- the algebra driver, discovery crawling the corpus,
the repository's own tests.  Oracles: acceptance tables from CPython's binder
(vf.oracle), really-called composites, the public algebra itself on an
independent route.
"""
import inspect
import itertools
import warnings

from . import sigs, oracle, monitor
from .sigs import PO, PK, VA, KO, VK
from .sigutil import (bparams, meta, meta_equal, show, show_params, is_bare_stars,
                      plain_copy, sources_view, src_as_sets, src_exact, deep_snapshot, kwo_sorted)
from .monitor import Monitor


def _sigmod():
    from sigtools import _signatures
    return _signatures


def jp(params):
    return sigs.to_json(params)


def replay_alg(op, inputs, **kw):
    return dict(workload='alg', op=op, inputs=[jp(p) for p in inputs], kwargs=kw)


def full_params(sig):
    """Parameter list with default/annotation *presence* kept as expressions where
    they are simple ints/strs -- enough to rebuild an equivalent input for replay."""
    out = []
    for p in sig.parameters.values():
        d = None if p.default is p.empty else (repr(p.default) if isinstance(p.default, (int, str, type(None))) else '0')
        a = None if p.annotation is p.empty else (repr(p.annotation) if isinstance(p.annotation, (int, str)) else None)
        out.append((p.name, sigs.KIND_OF[p.kind], d, a))
    return tuple(out)


def all_signatures(args):
    return all(isinstance(a, inspect.Signature) for a in args)


# =============================================================== C01

class MergeSound(Monitor):
    """C01: acc(merge(s1..sn)) restricted to pure calls (and to non-colliding
    calls when inputs are strictly role-consistent) is included in every acc(si)."""
    points = ('merge',)
    prop = 'C01'

    def post(self, point, args, kwargs, ok, value, tok):
        ctx = self.ctx
        if not ok or not args or not all_signatures(args):
            ctx.count('C01.merge_raised')
            return
        ins = [bparams(s) for s in args]
        res = bparams(value)
        sp = oracle.space_for(ins + [res])
        acc_m = sp.acc(res)
        ctx.evaluated()
        ctx.count('C01.merge_results')
        ctx.count('C01.merge_results_n%d' % min(len(ins), 4))
        consistent = oracle.strictly_role_consistent(ins)
        if consistent:
            ctx.count('C01.role_consistent')
            nc = sp.noncolliding(res, ins)
        if any(res != p for p in ins):
            ctx.nontrivial(('merge', tuple(ins)))
            ctx.sample('merge', {'inputs': [show_params(p) for p in ins], 'result': show_params(res),
                                 'role_consistent': consistent}, limit=4)
        for i, p in enumerate(ins):
            a = sp.acc(p)
            bad = acc_m & sp.pure & ~a
            if bad:
                ctx.violation(
                    'C01', 'MergeSound', 'merge-unsound-pure-n%d' % min(len(ins), 3),
                    'merge%s accepts a pure call that input %d rejects' % (
                        tuple(show_params(q) for q in ins), i),
                    {'inputs': [show_params(q) for q in ins], 'result': show_params(res),
                     'shape': sp.first(bad), 'rejected_by_input': i},
                    replay_alg('merge', [full_params(s) for s in args]))
            if consistent:
                bad = acc_m & nc & ~a
                if bad:
                    ctx.violation(
                        'C01', 'MergeSound', 'merge-unsound-noncolliding-n%d' % min(len(ins), 3),
                        'merge of role-consistent inputs accepts a non-colliding call that input %d rejects' % i,
                        {'inputs': [show_params(q) for q in ins], 'result': show_params(res),
                         'shape': sp.first(bad), 'rejected_by_input': i},
                        replay_alg('merge', [full_params(s) for s in args]))


# =============================================================== C09

def _norm_star(m):
    return [(('*' if k == VA else '**') if k in (VA, VK) else n, k, d, a) for n, k, d, a in m]


class MergeExact(Monitor):
    """C09: exactness on name-aligned inputs, identity / idempotence / neutral
    element laws, n-ary == nested for inputs whose shared names keep their role."""
    points = ('merge',)
    prop = 'C09'

    def post(self, point, args, kwargs, ok, value, tok):
        ctx = self.ctx
        S = _sigmod()
        if not args or not all_signatures(args):
            return
        ins = [bparams(s) for s in args]
        n = len(ins)
        if not ok and not isinstance(value, ValueError):
            return  # C15's business
        aligned = oracle.name_aligned(ins)
        loose = oracle.loosely_role_consistent(ins)
        names = [show_params(p) for p in ins]
        rp = replay_alg('merge', [full_params(s) for s in args])
        # ---- exactness
        # exactness is quantified over name-aligned *pairs*: an n-ary merge is a left
        # fold whose intermediate results cannot always express what a later input
        # still accepts (merge((b, c=0, a=0, **kw), (b, c=0, *args), (**kw)) raises:
        # the first step had to make b positional-only); for n >= 3 the fold law and
        # C01 apply instead
        if aligned and n >= 3:
            ctx.count('C09.aligned_nary_not_in_quantifier')
            # ... but "accepts exactly" has a half that holds for any number of inputs: what the
            # result accepts, every input accepts (nothing may be gained by folding)
            if ok:
                ctx.evaluated()
                ctx.count('C09.aligned_nary_no_gain_checked')
                sp = oracle.space_for(ins + [bparams(value)])
                common = sp.full
                for p in ins:
                    common &= sp.acc(p)
                res = bparams(value)
                extra = sp.acc(res) & sp.noncolliding(res, ins) & ~common
                if extra:
                    ctx.violation('C09', 'MergeExact', 'merge-extra-aligned-nary',
                                  'merge of %d name-aligned inputs accepts a non-colliding call some input rejects' % n,
                                  {'inputs': names, 'result': show_params(res), 'shape': sp.first(extra)}, rp)
        if aligned and n == 2:
            ctx.evaluated()
            ctx.count('C09.aligned')
            sp = oracle.space_for(ins + ([bparams(value)] if ok else []))
            common = sp.full
            for p in ins:
                common &= sp.acc(p)
            if ok:
                res = bparams(value)
                nc = sp.noncolliding(res, ins)
                acc_m = sp.acc(res)
                lost = common & nc & ~acc_m
                extra = acc_m & nc & ~common
                ctx.nontrivial(('exact', tuple(ins)))
                ctx.sample('merge-exact', {'inputs': names, 'result': show_params(res)}, limit=3)
                if lost:
                    ctx.violation('C09', 'MergeExact', 'merge-lossy-aligned',
                                  'merge of name-aligned inputs rejects a non-colliding call all inputs accept',
                                  {'inputs': names, 'result': show_params(res), 'shape': sp.first(lost)}, rp)
                if extra:
                    ctx.violation('C09', 'MergeExact', 'merge-extra-aligned',
                                  'merge of name-aligned inputs accepts a non-colliding call some input rejects',
                                  {'inputs': names, 'result': show_params(res), 'shape': sp.first(extra)}, rp)
            else:
                ctx.count('C09.aligned_raise')
                ctx.nontrivial(('exact-raise', tuple(ins)))
                # without a result 'non-colliding' can only mean: no keyword names a
                # parameter that some input cannot take by keyword (positional-only
                # or star) -- such a keyword could never be keyword-passable in a result
                notkw = {x[0] for p in ins for x in p if x[1] in (PO, VA, VK)}
                common &= sp.without_keywords(notkw)
                if common:
                    ctx.violation('C09', 'MergeExact', 'merge-raises-with-common-call',
                                  'merge of name-aligned inputs raises although a call accepted by all inputs exists',
                                  {'inputs': names, 'common_shape': sp.first(common),
                                   'exception': type(value).__name__}, rp)
                if not isinstance(value, S.IncompatibleSignatures):
                    ctx.violation('C09', 'MergeExact', 'merge-raises-other-than-incompatible',
                                  'merge of name-aligned inputs raised %s' % type(value).__name__,
                                  {'inputs': names}, rp)
        # ---- laws
        if n == 1:
            ctx.evaluated()
            ctx.count('C09.law_unary')
            if not ok:
                ctx.violation('C09', 'MergeExact', 'law-unary-raises', 'merge(s) raised',
                              {'input': names[0], 'exception': repr(value)}, rp)
            elif not meta_equal(meta(value), meta(args[0])) or \
                    src_exact(value) != src_exact(args[0]) or \
                    not _ret_equal(value, args[0]):
                ctx.violation('C09', 'MergeExact', 'law-unary', 'merge(s) differs from s',
                              {'input': show(args[0]), 'result': show(value),
                               'sources_in': sources_view(args[0]), 'sources_out': sources_view(value)}, rp)
        if n == 2 and meta_equal(meta(args[0]), meta(args[1])) and ins[0] == ins[1]:
            ctx.evaluated()
            ctx.count('C09.law_idempotent')
            if not ok:
                ctx.violation('C09', 'MergeExact', 'law-idempotent-raises', 'merge(s, s) raised',
                              {'input': names[0], 'exception': repr(value)}, rp)
            elif not meta_equal(meta(value), meta(args[0])):
                ctx.violation('C09', 'MergeExact', 'law-idempotent', 'merge(s, s) has other parameters than s',
                              {'input': show(args[0]), 'result': show(value)}, rp)
        if n == 2 and (is_bare_stars(ins[0]) or is_bare_stars(ins[1])) and not (
                is_bare_stars(ins[0]) and is_bare_stars(ins[1])):
            other = args[1] if is_bare_stars(ins[0]) else args[0]
            bare = args[0] if is_bare_stars(ins[0]) else args[1]
            if all(p.annotation is p.empty for p in bare.parameters.values()):
                ctx.evaluated()
                ctx.count('C09.law_neutral')
                if not ok:
                    ctx.violation('C09', 'MergeExact', 'law-neutral-raises',
                                  'merging with a bare (*args, **kwargs) raised',
                                  {'inputs': names, 'exception': repr(value)}, rp)
                elif not meta_equal(meta(value), meta(other), ignore_star_names=True):
                    ctx.violation('C09', 'MergeExact', 'law-neutral',
                                  'a bare (*args, **kwargs) is not neutral for merge',
                                  {'inputs': names, 'result': show(value)}, rp)
        if n >= 3 and loose:
            ctx.evaluated()
            ctx.count('C09.law_fold')
            orig = monitor.original('merge')
            try:
                nested = args[0]
                for s in args[1:]:
                    nested = orig(nested, s)
                nok = True
            except ValueError as e:
                nested, nok = e, False
            if ok != nok:
                ctx.violation('C09', 'MergeExact', 'law-fold-outcome',
                              'merge(a, b, c) %s but merge(merge(a, b), c) %s' % (
                                  'returns' if ok else 'raises', 'returns' if nok else 'raises'),
                              {'inputs': names, 'nary': show(value) if ok else repr(value),
                               'nested': show(nested) if nok else repr(nested)}, rp)
            elif ok:
                ctx.nontrivial(('fold', tuple(ins)))
                if not meta_equal(meta(value), meta(nested)):
                    ctx.violation('C09', 'MergeExact', 'law-fold-params',
                                  'merge(a, b, c) != merge(merge(a, b), c) in parameters',
                                  {'inputs': names, 'nary': show(value), 'nested': show(nested)}, rp)
                elif src_as_sets(value) != src_as_sets(nested) or _src_multiset(value) != _src_multiset(nested):
                    # (how often a callable is listed counts too: the n-ary merge IS the left fold)
                    ctx.violation('C09', 'MergeExact', 'law-fold-sources',
                                  'merge(a, b, c) != merge(merge(a, b), c) in provenance',
                                  {'inputs': names, 'nary': sources_view(value),
                                   'nested': sources_view(nested)}, rp)


def _src_multiset(sig):
    src = getattr(sig, 'sources', None) or {}
    return {k: sorted(id(f) for f in v) for k, v in src.items() if k != '+depths'}


def _ret_equal(a, b):
    try:
        return a.return_annotation is b.return_annotation or a.return_annotation == b.return_annotation
    except Exception:
        return False


class RoundTrip(Monitor):
    """C09: apply_params(s, *sort_params(s)) == s.  Evaluated on every
    sort_params call: the monitor completes the round trip itself."""
    points = ('sort_params',)
    prop = 'C09'

    def post(self, point, args, kwargs, ok, value, tok):
        ctx = self.ctx
        S = _sigmod()
        if not ok or not args or not isinstance(args[0], S.UpgradedSignature):
            return
        sig = args[0]
        with_sources = bool(kwargs.get('sources') or (len(args) > 1 and args[1]))
        ctx.evaluated()
        ctx.count('C09.law_roundtrip')
        apply_ = monitor.original('apply_params')
        try:
            back = apply_(sig, *value)
        except Exception as e:
            ctx.violation('C09', 'RoundTrip', 'law-roundtrip-raises',
                          'apply_params(s, *sort_params(s)) raised %s' % type(e).__name__,
                          {'input': show(sig), 'exception': repr(e)},
                          replay_alg('roundtrip', [full_params(sig)], sources=with_sources))
            return
        ctx.nontrivial(('roundtrip', bparams(sig), with_sources))
        # (the law is stated with ==: whatever Signature.__eq__ looks at -- upgraded annotations, the upgraded
        # return annotation -- takes part; an == that raises, e.g. NameError of an unevaluable annotation, decides nothing)
        try:
            really_equal = bool(back == sig) and not bool(back != sig)
        except Exception:
            really_equal = True
        if not meta_equal(meta(back), meta(sig)) or not _ret_equal(back, sig) or \
                src_exact(back) != src_exact(sig) or not really_equal:
            ctx.violation('C09', 'RoundTrip', 'law-roundtrip',
                          'apply_params(s, *sort_params(s)) differs from s',
                          {'input': show(sig), 'result': show(back),
                           'sources_in': sources_view(sig), 'sources_out': sources_view(back)},
                          replay_alg('roundtrip', [full_params(sig)], sources=with_sources))


# =============================================================== C02

_comp_cache = {}
_CALLEE = '_vf_callee_%d'


def composite(param_lists, use_va, use_vk):
    """A real chain f0 -> f1 -> ... where each fi forwards its own star
    parameters (those in use) to f(i+1) and the last one does nothing."""
    key = (tuple(sigs.render(p, with_meta=False) for p in param_lists), use_va, use_vk)
    f = _comp_cache.get(key)
    if f is not None:
        return f, key
    n = len(param_lists)
    g = {}
    lines = []
    for i in reversed(range(n)):
        pl = param_lists[i]
        if i == n - 1:
            body = 'pass'
        else:
            va = sigs.star_name(pl, VA) if use_va else None
            vk = sigs.star_name(pl, VK) if use_vk else None
            a = ([('*' + va)] if va else []) + ([('**' + vk)] if vk else [])
            body = 'return %s(%s)' % (_CALLEE % (i + 1), ', '.join(a))
        lines.append('def %s(%s): %s' % (_CALLEE % i, sigs.render(pl, with_meta=False), body))
    exec('\n'.join(lines), g)
    f = g[_CALLEE % 0]
    if len(_comp_cache) > 50000:
        _comp_cache.clear()
    _comp_cache[key] = f
    return f, key


def comp_acc(sp, param_lists, use_va, use_vk):
    f, key = composite(param_lists, use_va, use_vk)
    cache = sp.__dict__.setdefault('_comp_acc', {})
    r = cache.get(key)
    if r is None:
        r = cache[key] = sp.acc_callable(f)
    return r


class EmbedMonitor(Monitor):
    """C02: embed == really calling outer, which forwards its stars to inner."""
    points = ('embed',)
    prop = 'C02'

    def post(self, point, args, kwargs, ok, value, tok):
        ctx = self.ctx
        S = _sigmod()
        if not args or not all_signatures(args):
            return
        use_va = kwargs.get('use_varargs', True)
        use_vk = kwargs.get('use_varkwargs', True)
        ins = [bparams(s) for s in args]
        n = len(ins)
        names = [show_params(p) for p in ins]
        rp = replay_alg('embed', [full_params(s) for s in args],
                        use_varargs=bool(use_va), use_varkwargs=bool(use_vk))
        if n < 2:
            return
        ctx.evaluated()
        ctx.count('C02.embed_calls')
        allnames = [x for p in ins for x in sigs.names_of(p)]
        forwarded = set()
        for p in ins[:-1]:
            if use_va and sigs.star_name(p, VA):
                forwarded.add((id(p), sigs.star_name(p, VA)))
            if use_vk and sigs.star_name(p, VK):
                forwarded.add((id(p), sigs.star_name(p, VK)))
        # a name declared twice (a star parameter that is forwarded is replaced by
        # what it receives: it does not count as a declaration)
        decl = []
        for p in ins:
            for x in p:
                if (id(p), x[0]) not in forwarded:
                    decl.append(x[0])
        shared = len(decl) != len(set(decl))
        sp = oracle.space_for(ins + ([bparams(value)] if ok else []))
        comp = comp_acc(sp, ins, bool(use_va), bool(use_vk))
        if not ok:
            if not isinstance(value, ValueError):
                return
            ctx.count('C02.embed_raised')
            ctx.nontrivial(('embed-raise', tuple(ins), use_va, use_vk))
            if not shared and comp:
                ctx.violation('C02', 'EmbedMonitor', 'embed-raises-although-callable',
                              'embed raises although no name is declared twice and the real composite accepts a call',
                              {'inputs': names, 'use_varargs': use_va, 'use_varkwargs': use_vk,
                               'accepted_shape': sp.first(comp), 'exception': type(value).__name__}, rp)
            return
        res = bparams(value)
        acc_e = sp.acc(res)
        nc = sp.noncolliding(res, ins)
        ctx.nontrivial(('embed', tuple(ins), bool(use_va), bool(use_vk)))
        ctx.sample('embed', {'inputs': names, 'use_varargs': bool(use_va), 'use_varkwargs': bool(use_vk),
                             'result': show_params(res)}, limit=4)
        unsound = acc_e & nc & ~comp
        if unsound:
            ctx.violation('C02', 'EmbedMonitor', 'embed-unsound',
                          'embed result accepts a non-colliding call on which the real composite raises TypeError',
                          {'inputs': names, 'use_varargs': use_va, 'use_varkwargs': use_vk,
                           'result': show_params(res), 'shape': sp.first(unsound)}, rp)
        # exemption: outer has defaulted positional parameters followed (in the
        # result) by positional parameters of an inner signature
        exempt = False
        for depth, p in enumerate(ins[:-1]):
            if any(x[1] in (PO, PK) and x[2] is not None for x in p):
                later = set()
                for q in ins[depth + 1:]:
                    later.update(sigs.names_of(q))
                if any(x[0] in later and x[1] in (PO, PK) for x in res):
                    exempt = True
        if exempt:
            ctx.count('C02.exactness_exempt')
        else:
            ctx.count('C02.exactness_checked')
            lost = comp & nc & ~acc_e
            if lost:
                ctx.violation('C02', 'EmbedMonitor', 'embed-inexact',
                              'embed result rejects a non-colliding call the real composite accepts (no defaulted outer positional involved)',
                              {'inputs': names, 'use_varargs': use_va, 'use_varkwargs': use_vk,
                               'result': show_params(res), 'shape': sp.first(lost)}, rp)
        # bare identity
        if n == 2 and is_bare_stars(ins[0]) and use_va and use_vk:
            ctx.count('C02.law_bare')
            if not meta_equal(meta(value), meta(args[1])):
                ctx.violation('C02', 'EmbedMonitor', 'law-bare-outer',
                              'embedding into a bare (*args, **kwargs) changes the inner parameters',
                              {'inputs': names, 'result': show(value)}, rp)
        # fold law
        if n >= 3:
            ctx.count('C02.law_fold')
            orig = monitor.original('embed')
            try:
                nested = args[0]
                for s in args[1:]:
                    nested = orig(nested, s, use_varargs=use_va, use_varkwargs=use_vk)
            except ValueError as e:
                ctx.violation('C02', 'EmbedMonitor', 'law-fold-outcome',
                              'embed(a, b, c) returns but embed(embed(a, b), c) raises',
                              {'inputs': names, 'nary': show(value), 'nested': repr(e)}, rp)
            else:
                if not meta_equal(meta(value), meta(nested)):
                    ctx.violation('C02', 'EmbedMonitor', 'law-fold-params',
                                  'embed(a, b, c) and embed(embed(a, b), c) differ in parameters',
                                  {'inputs': names, 'nary': show(value), 'nested': show(nested)}, rp)


# =============================================================== C03

def _mask_call_info(point, args, kwargs):
    """Normalise a mask()/_mask() call: (sig, n, names, flags dict, partial_obj)."""
    if point == 'mask':
        sig = args[0]
        n = args[1] if len(args) > 1 else kwargs.get('num_args', 0)
        names = tuple(args[2:])
        flags = {k: bool(kwargs.get(k, False)) for k in
                 ('hide_args', 'hide_kwargs', 'hide_varargs', 'hide_varkwargs')}
        return sig, n, names, flags, None
    sig, n, ha, hk, hva, hvk, named, pobj = args[:8]
    flags = dict(hide_args=bool(ha), hide_kwargs=bool(hk), hide_varargs=bool(hva),
                 hide_varkwargs=bool(hvk))
    return sig, n, tuple(named), flags, pobj


def hidden_union(sp, acc_s, n, names, sparams, flags):
    """Shapes (p, K) for which some hidden arguments make sig accept
    (p + n + q, K | K' | names): q > 0 only under hide_args, K' non-empty only
    under hide_kwargs."""
    qs = [0]
    if flags['hide_args']:
        qs = range(0, sp.maxpos + 1)
    kws = [frozenset()]
    if flags['hide_kwargs']:
        pool = [x[0] for x in sparams if x[1] in (PK, KO)]
        if sigs.has_kind(sparams, VK):
            pool.append(oracle.FOREIGN + '2')
        pool = [x for x in pool if x in sp.names]
        kws = [frozenset(c) for r in range(len(pool) + 1) for c in itertools.combinations(pool, r)]
    r = 0
    for q in qs:
        for k in kws:
            r |= sp.shift(acc_s, n + q, frozenset(names) | k)
    return r


class MaskMonitor(Monitor):
    """C03: exact residual signature; order independence; laws; hide_* flags."""
    points = ('mask',)
    prop = 'C03'

    def post(self, point, args, kwargs, ok, value, tok):
        ctx = self.ctx
        if not args or not isinstance(args[0], inspect.Signature):
            return
        sig, n, names, flags, pobj = _mask_call_info(point, args, kwargs)
        if not isinstance(n, int) or n < 0 or not all(isinstance(x, str) for x in names):
            return
        if not ok and not isinstance(value, ValueError):
            return
        sparams = bparams(sig)
        if len(set(names)) != len(names):
            # one keyword cannot be passed twice: sig "could not be passed those arguments at all"
            ctx.count('C03.duplicate_names')
            ctx.evaluated()
            if ok and point == 'mask':
                ctx.violation('C03', 'MaskMonitor', 'mask-accepts-duplicate-name',
                              'mask returns although one name is listed twice (no call can pass a keyword twice)',
                              {'sig': show_params(sparams), 'n': n, 'names': list(names), 'result': show(value)},
                              replay_alg('mask', [full_params(sig)], n=n, names=list(names),
                                         **_mask_call_info(point, args, kwargs)[3]))
            return
        po_names = {x[0] for x in sparams if x[1] == PO}
        if po_names & set(names):
            ctx.count('C03.skipped_posonly_named')
            return
        star_names = {x[0] for x in sparams if x[1] in (VA, VK)}
        anyflag = any(flags.values())
        rp = replay_alg('mask', [full_params(sig)], n=n, names=list(names), **flags)
        w = {'sig': show_params(sparams), 'n': n, 'names': list(names),
             'flags': [k for k, v in flags.items() if v]}
        ctx.evaluated()
        ctx.count('C03.mask_calls')
        maxpos = sigs.positional_capacity(sparams) + n + 2
        pool = set(sigs.names_of(sparams)) | set(names) | {oracle.FOREIGN}
        if flags['hide_kwargs'] and sigs.has_kind(sparams, VK):
            pool.add(oracle.FOREIGN + '2')
        if len(pool) > 9:
            ctx.count('C03.skipped_too_many_names')
            return
        sp = oracle.Space.get(maxpos, pool)
        acc_s = sp.acc(sparams)
        disjoint = sp.without_keywords(names)
        inrange = sp.select(lambda p, K: p + n <= sp.maxpos)
        if not anyflag:
            want = sp.shift(acc_s, n, names) & disjoint
            if not ok:
                ctx.count('C03.mask_raised')
                ctx.nontrivial(('mask-raise', sparams, n, names))
                if want:
                    ctx.violation('C03', 'MaskMonitor', 'mask-raises-although-passable',
                                  'mask raises ValueError although sig accepts a call with these arguments',
                                  dict(w, accepted_residual_shape=sp.first(want)), rp)
            else:
                res = bparams(value)
                nc = sp.noncolliding(res, [sparams])
                acc_r = sp.acc(res)
                ctx.nontrivial(('mask', sparams, n, names))
                ctx.sample('mask', dict(w, result=show_params(res)), limit=4)
                if not want:
                    ctx.violation('C03', 'MaskMonitor', 'mask-returns-although-impossible',
                                  'mask returns although sig cannot be passed these arguments at all',
                                  dict(w, result=show_params(res)), rp)
                m = disjoint & nc & inrange
                extra = acc_r & m & ~want
                lost = want & m & ~acc_r
                if extra:
                    ctx.violation('C03', 'MaskMonitor', 'mask-unsound',
                                  'mask result accepts a call that sig rejects once the masked arguments are added',
                                  dict(w, result=show_params(res), shape=sp.first(extra)), rp)
                if lost:
                    ctx.violation('C03', 'MaskMonitor', 'mask-inexact',
                                  'mask result rejects a call that sig accepts once the masked arguments are added',
                                  dict(w, result=show_params(res), shape=sp.first(lost)), rp)
            # laws + order independence (only for the public function: _mask in
            # partial mode has its own semantics, see C19)
            if point == 'mask':
                self.laws(sig, n, names, ok, value, w, rp)
        elif point == 'mask':
            self.flags(sp, acc_s, sig, sparams, n, names, flags, ok, value, w, rp, disjoint, inrange)

    def laws(self, sig, n, names, ok, value, w, rp):
        ctx = self.ctx
        orig = monitor.original('mask')
        if n == 0 and not names:
            ctx.count('C03.law_mask0')
            if not ok or not meta_equal(meta(value), meta(sig)) or src_exact(value) != src_exact(sig):
                ctx.violation('C03', 'MaskMonitor', 'law-mask0', 'mask(sig, 0) is not sig',
                              dict(w, result=show(value) if ok else repr(value),
                                   sources_in=sources_view(sig),
                                   sources_out=sources_view(value) if ok else None), rp)
        if n >= 2 and not names:
            ctx.count('C03.law_compose')
            for n1 in range(1, n):
                try:
                    two = orig(orig(sig, n1), n - n1)
                    tok = True
                except ValueError as e:
                    two, tok = e, False
                if tok != ok or (ok and (not meta_equal(meta(two), meta(value))
                                         or src_exact(two) != src_exact(value))):
                    ctx.violation('C03', 'MaskMonitor', 'law-compose',
                                  'mask(mask(sig, n), m) differs from mask(sig, n + m)',
                                  dict(w, split=[n1, n - n1],
                                       one=show(value) if ok else repr(value),
                                       two=show(two) if tok else repr(two)), rp)
                    break
        if len(names) >= 2:
            ctx.count('C03.order_checked')
            for perm in itertools.permutations(names):
                if perm == names:
                    continue
                try:
                    other = orig(sig, n, *perm)
                    ook = True
                except ValueError as e:
                    other, ook = e, False
                if ook != ok:
                    ctx.violation('C03', 'MaskMonitor', 'mask-order-dependent-outcome',
                                  'mask %s for names %s but %s for %s' % (
                                      'returns' if ok else 'raises', list(names),
                                      'returns' if ook else 'raises', list(perm)),
                                  dict(w, permutation=list(perm),
                                       first=show(value) if ok else repr(value),
                                       second=show(other) if ook else repr(other)), rp)
                    break
                if ok and (not meta_equal(kwo_sorted(meta(other)), kwo_sorted(meta(value))) or
                           src_as_sets(other) != src_as_sets(value)):
                    ctx.violation('C03', 'MaskMonitor', 'mask-order-dependent-result',
                                  'mask result depends on the order in which names are listed',
                                  dict(w, permutation=list(perm), first=show(value), second=show(other)), rp)
                    break

    def flags(self, sp, acc_s, sig, sparams, n, names, flags, ok, value, w, rp, disjoint, inrange):
        ctx = self.ctx
        ctx.count('C03.flag_calls')
        orig = monitor.original('mask')
        # raise clause under flags.  "Raises exactly when sig could not be passed those
        # arguments" does not mention the flags, and the flags "only ever remove parameters":
        # the outcome (returns / raises) must be the one of the same mask without flags.  One
        # documented exception, kept out: under hide_args every positional parameter counts as
        # consumed by the hidden *other, so naming a positional-or-keyword parameter of sig is
        # reported as a duplicate (deliberate conservatism of the original code).
        pok_named = flags['hide_args'] and any(x[0] in names for x in sparams if x[1] == PK)
        if not pok_named:
            try:
                orig(sig, n, *names)
                plain_ok = True
            except ValueError:
                plain_ok = False
            ctx.count('C03.flag_raise_clause')
            if plain_ok != ok:
                ctx.violation('C03', 'MaskMonitor', 'mask-flags-change-outcome',
                              'mask with hide_* flags %s although the same mask without flags %s' % (
                                  'returns' if ok else 'raises ValueError',
                                  'returns' if plain_ok else 'raises ValueError'),
                              dict(w, result=show(value) if ok else repr(value)), rp)
        if not ok:
            ctx.count('C03.flag_raised')
            return
        res = bparams(value)
        ctx.nontrivial(('mask-flags', sparams, n, names, tuple(sorted(flags.items()))))
        ctx.sample('mask-flags', dict(w, result=show_params(res)), limit=3)
        try:
            plain = orig(sig, n, *names)
        except ValueError:
            plain = None
        if plain is not None:
            ctx.count('C03.flag_structural')
            pm = meta(plain)
            expect = []
            for x in pm:
                k = x[1]
                if flags['hide_args'] and k in (PO, PK, VA):
                    continue
                if flags['hide_kwargs'] and k in (PK, KO, VK):
                    continue
                if flags['hide_varargs'] and k == VA:
                    continue
                if flags['hide_varkwargs'] and k == VK:
                    continue
                expect.append(x)
            if not meta_equal(meta(value), expect):
                ctx.violation('C03', 'MaskMonitor', 'mask-flags-structure',
                              'hide_* flags did not remove exactly the stated parameters',
                              dict(w, without_flags=show(plain), result=show(value),
                                   expected='(%s)' % ', '.join(x[0] for x in expect)), rp)
        # soundness: accepted by sig for some choice of the hidden arguments
        nc = sp.noncolliding(res, [sparams])
        acc_r = sp.acc(res)
        possible = hidden_union(sp, acc_s, n, names, sparams, flags)
        ctx.count('C03.flag_soundness')
        bad = acc_r & nc & disjoint & inrange & ~possible
        if bad:
            ctx.violation('C03', 'MaskMonitor', 'mask-flags-unsound',
                          'with hide_* flags the result accepts a call that sig rejects for every choice of the hidden arguments',
                          dict(w, result=show_params(res), shape=sp.first(bad)), rp)


# =============================================================== C04 (algebraic half)

class ForwardsEq(Monitor):
    """C04: forwards(outer, inner, n, *names, flags) == embed(outer, mask(inner', ...))
    in parameters and provenance (inner' = inner with every named parameter made
    optional when partial=True)."""
    points = ('forwards',)
    prop = 'C04'

    def post(self, point, args, kwargs, ok, value, tok):
        ctx = self.ctx
        if len(args) < 2 or not all_signatures(args[:2]):
            return
        if not ok and not isinstance(value, ValueError):
            return
        outer, inner = args[0], args[1]
        n = args[2] if len(args) > 2 else kwargs.get('num_args', 0)
        names = tuple(args[3:])
        ha = kwargs.get('hide_args', False)
        hk = kwargs.get('hide_kwargs', False)
        uva = kwargs.get('use_varargs', True)
        uvk = kwargs.get('use_varkwargs', True)
        part = kwargs.get('partial', False)
        ctx.evaluated()
        ctx.count('C04.forwards_calls')
        m_orig, e_orig = monitor.original('mask'), monitor.original('embed')
        rp = replay_alg('forwards', [full_params(outer), full_params(inner)], n=n, names=list(names),
                        hide_args=bool(ha), hide_kwargs=bool(hk), use_varargs=bool(uva),
                        use_varkwargs=bool(uvk), partial=bool(part))
        w = {'outer': show(outer), 'inner': show(inner), 'n': n, 'names': list(names),
             'hide_args': bool(ha), 'hide_kwargs': bool(hk), 'use_varargs': bool(uva),
             'use_varkwargs': bool(uvk), 'partial': bool(part)}
        inner2 = inner
        if part:
            ps = []
            for p in inner.parameters.values():
                if p.kind in (p.VAR_POSITIONAL, p.VAR_KEYWORD):
                    ps.append(p)
                else:
                    ps.append(p.replace(default=None))
            inner2 = inner.replace(parameters=ps)
        try:
            want = e_orig(outer, m_orig(inner2, n, *names, hide_args=ha, hide_kwargs=hk),
                          use_varargs=uva, use_varkwargs=uvk)
            wok = True
        except ValueError as e:
            want, wok = e, False
        if ok != wok:
            ctx.violation('C04', 'ForwardsEq', 'forwards-vs-embed-mask-outcome',
                          'forwards %s but embed(outer, mask(inner, ...)) %s' % (
                              'returns' if ok else 'raises', 'returns' if wok else 'raises'),
                          dict(w, forwards=show(value) if ok else repr(value),
                               embed_mask=show(want) if wok else repr(want)), rp)
            return
        if not ok:
            ctx.count('C04.forwards_raised')
            return
        ctx.nontrivial(('forwards', bparams(outer), bparams(inner), n, names, ha, hk, uva, uvk, part))
        ctx.sample('forwards', dict(w, result=show(value)), limit=3)
        if not meta_equal(meta(value), meta(want)):
            ctx.violation('C04', 'ForwardsEq', 'forwards-vs-embed-mask-params',
                          'forwards differs from embed(outer, mask(inner, ...)) in parameters',
                          dict(w, forwards=show(value), embed_mask=show(want)), rp)
        elif src_exact(value) != src_exact(want):
            ctx.violation('C04', 'ForwardsEq', 'forwards-vs-embed-mask-sources',
                          'forwards differs from embed(outer, mask(inner, ...)) in provenance',
                          dict(w, forwards=sources_view(value), embed_mask=sources_view(want)), rp)


# =============================================================== C15

class WellFormed(Monitor):
    """C15: ValueError or a well-formed UpgradedSignature; downgraded inputs
    give the same parameters plus a DeprecationWarning."""
    points = ('merge', 'embed', 'mask', 'forwards')
    prop = 'C15'

    def post(self, point, args, kwargs, ok, value, tok):
        ctx = self.ctx
        S = _sigmod()
        sig_args = [a for a in args if isinstance(a, inspect.Signature)]
        if not sig_args:
            return
        if point in ('merge', 'embed') and not all_signatures(args):
            return
        kw = {k: v for k, v in kwargs.items() if not k.startswith('_')}
        rp = replay_alg(point, [full_params(s) for s in sig_args],
                        rest=[a for a in args if not isinstance(a, inspect.Signature)], **kw)
        w = {'op': point, 'inputs': [show(s) for s in sig_args],
             'rest': [repr(a) for a in args if not isinstance(a, inspect.Signature)], 'kwargs': kw}
        ctx.evaluated()
        ctx.count('C15.%s' % point)
        if any(p.annotation is not p.empty for s_ in sig_args for p in s_.parameters.values()):
            ctx.count('C15.annotated_inputs')
        ins = [bparams(s) for s in sig_args]
        if not ok:
            ctx.count('C15.raised')
            ctx.sample('raised-' + point, dict(w, exception=repr(value)[:200]), limit=2)
            ctx.nontrivial(('raise', point, tuple(ins), repr(args[len(sig_args):]), repr(sorted(kw.items()))))
            if not isinstance(value, ValueError):
                ctx.violation('C15', 'WellFormed', 'escapes-%s' % type(value).__name__,
                              '%s raised %s instead of ValueError' % (point, type(value).__name__),
                              dict(w, exception=repr(value)), rp)
            elif point in ('merge', 'embed') and oracle.strictly_role_consistent(ins) \
                    and not isinstance(value, S.IncompatibleSignatures):
                ctx.violation('C15', 'WellFormed', 'plain-valueerror-on-consistent-inputs',
                              '%s raised plain %s on role-consistent inputs' % (point, type(value).__name__),
                              dict(w, exception=repr(value)), rp)
        else:
            ctx.nontrivial(('ok', point, tuple(ins), repr(args[len(sig_args):]), repr(sorted(kw.items()))))
            ctx.sample('returned-' + point, dict(w, result=show(value)), limit=2)
            problems = self.malformed(value)
            if problems:
                ctx.violation('C15', 'WellFormed', 'malformed-' + problems[0][0],
                              '%s returned a malformed signature: %s' % (point, problems[0][1]),
                              dict(w, result=repr(value)), rp)
        # downgraded run
        variants = []
        if all(isinstance(s, S.UpgradedSignature) for s in sig_args):
            variants.append(None)                       # every signature downgraded
            if len(sig_args) >= 2:
                # ... and only ONE of them, at a position that moves on from event to event (mixed inputs)
                self._mixed = getattr(self, '_mixed', 0) + 1
                if self._mixed % 2 == 0:
                    variants.append((self._mixed // 2) % len(sig_args))
        for only in variants:
            orig = monitor.original(point)
            positions = [i for i, a in enumerate(args) if isinstance(a, S.UpgradedSignature)]
            chosen = set(positions) if only is None else {positions[only]}
            dargs = tuple(plain_copy(a) if i in chosen else a for i, a in enumerate(args))
            if only is not None:
                ctx.count('C15.mixed_downgraded_runs')
                w = dict(w, downgraded_input_only=only)
            with warnings.catch_warnings(record=True) as caught:
                warnings.simplefilter('always')
                try:
                    dval = orig(*dargs, **kwargs)
                    dok = True
                except Exception as e:
                    dval, dok = e, False
            ctx.count('C15.downgraded_runs')
            if dok != ok or (not ok and not isinstance(dval, ValueError)):
                ctx.violation('C15', 'WellFormed', 'downgraded-outcome-differs',
                              '%s with plain inspect.Signature inputs %s (%s) but with upgraded inputs %s' % (
                                  point, 'returns' if dok else 'raises',
                                  type(dval).__name__, 'returns' if ok else 'raises'),
                              dict(w, downgraded=show(dval) if dok else repr(dval)), rp)
            elif ok:
                if not meta_equal(meta(dval), meta(value)):
                    ctx.violation('C15', 'WellFormed', 'downgraded-params-differ',
                                  '%s gives other parameters for plain inspect.Signature inputs' % point,
                                  dict(w, upgraded=show(value), downgraded=show(dval)), rp)
                if not any(issubclass(c.category, DeprecationWarning) for c in caught):
                    ctx.violation('C15', 'WellFormed', 'downgraded-no-warning',
                                  '%s accepted plain inspect.Signature inputs without a DeprecationWarning' % point,
                                  w, rp)

    @staticmethod
    def malformed(value):
        S = _sigmod()
        out = []
        if not isinstance(value, S.UpgradedSignature):
            return [('type', 'result is %s' % type(value).__name__)]
        params = list(value.parameters.values())
        for p in params:
            if not isinstance(p, S.UpgradedParameter):
                out.append(('param-type', 'parameter %s is a plain %s' % (p.name, type(p).__name__)))
        try:
            inspect.Signature([inspect.Parameter(p.name, p.kind, default=p.default) for p in params])
        except (ValueError, TypeError) as e:
            out.append(('order', 'does not re-validate: %s' % e))
        names = [p.name for p in params]
        if len(set(names)) != len(names):
            out.append(('dup', 'duplicate parameter names'))
        src = getattr(value, 'sources', None)
        if not isinstance(src, dict) or not isinstance(src.get('+depths'), dict):
            out.append(('depths', "no '+depths' map in sources"))
        return out


class RetrievalFallback(Monitor):
    """C15, retrieval side: a ValueError raised by merge/embed/mask/forwards while discovery is
    computing must be turned into the fallback: the outermost sigtools.signature call on an
    object without an explicit forger returns, it does not raise ValueError."""
    points = ('merge', 'embed', 'mask', '_mask', 'forwards', 'forged_signature')
    prop = 'C15'

    def __init__(self, ctx):
        Monitor.__init__(self, ctx)
        self.pending = 0

    def post(self, point, args, kwargs, ok, value, tok):
        ctx = self.ctx
        inside = any(p == 'forged_signature' for p, s in monitor.NESTING)
        if point != 'forged_signature':
            if inside and not ok and isinstance(value, ValueError):
                self.pending += 1
            return
        if inside:
            return
        pending, self.pending = self.pending, 0
        if not pending:
            return
        ctx.count('C15.retrievals_with_algebra_failure_inside')
        subject = args[0] if args else kwargs.get('obj')
        if not ok and isinstance(value, ValueError):
            from sigtools import _util
            try:
                explicit = getattr(_util.get_introspectable(subject), '_sigtools__forger', None) is not None
            except Exception:
                explicit = False
            if explicit:
                ctx.count('C15.explicit_declaration_surfaces')
                return
            ctx.violation('C15', 'RetrievalFallback', 'algebra-failure-escapes-retrieval',
                          'a %s raised by the algebra inside discovery escaped sigtools.signature instead of the fallback' % type(value).__name__,
                          {'subject': repr(subject)[:200], 'exception': repr(value)[:300], 'algebra_failures_inside': pending},
                          dict(workload='retrieval', note='see the W-AUTO program of the enclosing case'))


# =============================================================== C16 (algebra half)

class Immutable(Monitor):
    """C16: inputs unchanged after return *and after a raise*; results share
    neither the sources map nor any of its lists with an input."""
    points = ('merge', 'embed', 'mask', 'forwards', 'sort_params', 'apply_params')
    prop = 'C16'
    wants_pre = True

    def pre(self, point, args, kwargs):
        snaps = []
        for i, a in enumerate(args):
            if isinstance(a, inspect.Signature):
                snaps.append((i, a, deep_snapshot(a)))
        extra = None
        if point == 'apply_params':
            # the parameter containers handed in must not be modified either
            extra = []
            for a in args[1:]:
                if isinstance(a, list):
                    extra.append((a, list(a)))
                elif isinstance(a, dict):
                    extra.append((a, list(a.items())))
        return snaps, extra

    def post(self, point, args, kwargs, ok, value, tok):
        ctx = self.ctx
        if tok is None:
            return
        snaps, extra = tok
        if not snaps:
            return
        ctx.evaluated()
        ctx.count('C16.%s' % point)
        if not ok:
            ctx.count('C16.after_raise')
        kw = {k: v for k, v in kwargs.items() if not k.startswith('_')}
        sig_args = [a for a in args if isinstance(a, inspect.Signature)]
        rp = replay_alg(point, [full_params(s) for s in sig_args],
                        rest=[a for a in args if isinstance(a, (int, str))], **kw)
        w = {'op': point, 'inputs': [show(s) for s in sig_args], 'kwargs': kw,
             'outcome': 'returned' if ok else 'raised %s' % type(value).__name__}
        ctx.nontrivial((point, tuple(bparams(s) for s in sig_args), ok,
                        repr([a for a in args if isinstance(a, (int, str))]), repr(sorted(kw.items()))))
        for i, a, snap in snaps:
            if deep_snapshot(a) != snap:
                ctx.violation('C16', 'Immutable', 'input-modified-by-%s' % point,
                              '%s modified its input signature #%d' % (point, i),
                              dict(w, sources_after=sources_view(a)), rp)
        for cont, before in extra or ():
            now = list(cont) if isinstance(cont, list) else list(cont.items())
            if len(now) != len(before) or any(x is not y and x != y for x, y in zip(now, before)):
                ctx.violation('C16', 'Immutable', 'container-modified-by-%s' % point,
                              '%s modified a parameter container it was given' % point, w, rp)
        if not ok:
            return
        out_src = None
        if point == 'sort_params':
            if isinstance(value, tuple) and len(value) == 6:
                out_src = value[5]
        elif point in ('merge', 'embed', 'mask', 'forwards'):
            out_src = getattr(value, 'sources', None)
        if isinstance(out_src, dict):
            ctx.count('C16.aliasing_checked')
            for i, a, snap in snaps:
                in_src = getattr(a, 'sources', None)
                if not isinstance(in_src, dict):
                    continue
                if out_src is in_src:
                    ctx.violation('C16', 'Immutable', 'shares-map-%s' % point,
                                  'result of %s shares its sources map with input #%d' % (point, i), w, rp)
                    continue
                in_ids = {id(v): k for k, v in in_src.items()}
                for k, v in out_src.items():
                    if id(v) in in_ids:
                        ctx.violation('C16', 'Immutable', 'shares-list-%s' % point,
                                      'result of %s shares the %r entry of its sources with input #%d (%r)' % (
                                          point, k, i, in_ids[id(v)]), w, rp)
                        break

"""W-AUTO: a grammar of forwarding programs (C05, C06; feeds C07, C08, C14 too).

A program =  callee definitions . resolution route . def outer(O): body
body      =  decoys . [taints] . 1-3 forwarding calls, each in a statement context . [taints]
The generator keeps the ground truth (which call forwards what, which taint
executes before which call); oracles use only that and the public algebra --
never the AST walker.  Every program is a pure function of its case seed.
"""
import functools
import inspect
import itertools
import random
import textwrap

from . import sigs, oracle
from . import core
from .sigs import PO, PK, VA, KO, VK
from .sigutil import bparams, show, show_params, src_as_sets, sources_view, ident

ROUTES = ['global', 'closure', 'attr', 'selfmethod', 'param_partial', 'inner_partial', 'wraps',
          'default_param', 'callobj', 'clsmethod']
CONTEXTS = ['expr', 'assign', 'return', 'if', 'ifelse', 'try', 'tryfinally', 'with', 'for', 'while',
            'listcomp', 'genexp', 'dictcomp', 'nested', 'lambda', 'argof', 'starof', 'dstarof', 'ternary',
            'nested_decorated', 'fstring', 'await_free_walrus',
            'nested_argof', 'lambda_argof', 'nested_kwof', 'nested_starof', 'nested_twice', 'lambda_in_nested',
            'nested_receiver', 'except', 'except_bare', 'except_tuple', 'except_as', 'tryelse']
# How many times the visitor defers a call before processing it.  Deferred calls are processed after the
# top-level ones, in order of (deferral depth, source order): exchanging contexts of different depth reorders
# the operands of the final merge, which may legitimately change names of positional-only parameters and the
# order of provenance lists (C06 fixes the set of merged calls, not the order: expected_for tries every
# order).  The metamorphic variants therefore stay within one depth class.
DEFER_DEPTH = {'nested': 1, 'lambda': 1, 'nested_decorated': 1, 'nested_twice': 1, 'nested_argof': 2,
               'lambda_argof': 2, 'nested_kwof': 2, 'nested_starof': 2, 'lambda_in_nested': 3, 'nested_receiver': 3}
NESTED_CONTEXTS = ('nested', 'lambda', 'nested_decorated', 'nested_argof', 'lambda_argof', 'nested_kwof',
                   'nested_starof', 'nested_twice', 'lambda_in_nested', 'nested_receiver')

# --- taints: (label, template, class)   class: 'definite' | 'ambiguous' | 'nonname'
TAINTS_KW = [
    ('rebind', '{K} = dict(OTHER_K)', 'definite'),
    ('pop', '{K}.pop("zq9", None)', 'definite'),
    ('setitem', '{K}["zq9"] = 1', 'definite'),
    ('delitem', '{K}.pop("zq9", 0); {K}["zq9"] = 0; del {K}["zq9"]', 'definite'),
    ('update', '{K}.update({{}})', 'definite'),
    ('setdefault', '{K}.setdefault("zq9", 1)', 'definite'),
    ('ior', '{K} |= {{}}', 'definite'),
    ('handed-on', 'sink({K})', 'definite'),
    ('alias', 'alias_ = {K}', 'definite'),
    ('for-target', 'for {K} in [dict(OTHER_K)]: pass', 'definite'),
    ('with-target', 'with ctx(dict(OTHER_K)) as {K}: pass', 'definite'),
    ('walrus', '({K} := dict(OTHER_K))', 'definite'),
    ('del', 'del {K}', 'definite'),
    ('nonlocal', 'def _nl():\n    nonlocal {K}\n    {K} = dict(OTHER_K)', 'definite'),
    ('nonlocal-chain', 'def _nl2():\n    nonlocal {K}\n    def _nl3():\n        nonlocal {K}\n        {K} = dict(OTHER_K)', 'definite'),
    ('nonlocal-deep', 'def _nl4():\n    def _nl5():\n        nonlocal {K}\n        {K} = dict(OTHER_K)', 'definite'),
    ('nonlocal-in-class-method', 'class _NL6:\n    def m(self):\n        nonlocal {K}\n        {K} = dict(OTHER_K)', 'definite'),
    ('rebind-in-except', 'try:\n    raise KeyError()\nexcept KeyError:\n    {K} = dict(OTHER_K)', 'definite'),
    ('rebind-in-bare-except', 'try:\n    raise KeyError()\nexcept:\n    {K} = dict(OTHER_K)', 'definite'),
    ('tuple-unpack', '{K}, _u = dict(OTHER_K), 1', 'definite'),
    ('read-len', 'len({K})', 'ambiguous'),
    ('read-item', '{K}.get("zq9")', 'ambiguous'),
    ('read-in', '"zq9" in {K}', 'ambiguous'),
    ('import-as', 'import os as {K}', 'nonname'),
    ('from-import-as', 'from os import path as {K}', 'nonname'),
    ('except-as', 'try:\n    raise KeyError()\nexcept KeyError as {K}:\n    pass', 'nonname'),
    ('def-statement', 'def {K}(): pass', 'nonname'),
    ('class-statement', 'class {K}: pass', 'nonname'),
    ('match-mapping', 'match dict(OTHER_K):\n    case {{**{K}}}:\n        pass', 'nonname'),
    ('match-as', 'match dict(OTHER_K):\n    case _ as {K}:\n        pass', 'nonname'),
    ('comprehension-target', '[0 for {K} in [dict(OTHER_K)]]', 'ambiguous'),
]
TAINTS_VA = [
    ('rebind', '{A} = tuple(OTHER_A)', 'definite'),
    ('augassign', '{A} += ()', 'definite'),
    ('slice-rebind', '{A} = {A}[0:]', 'definite'),
    ('for-target', 'for {A} in [tuple(OTHER_A)]: pass', 'definite'),
    ('with-target', 'with ctx(tuple(OTHER_A)) as {A}: pass', 'definite'),
    ('walrus', '({A} := tuple(OTHER_A))', 'definite'),
    ('del', 'del {A}', 'definite'),
    ('nonlocal', 'def _nl():\n    nonlocal {A}\n    {A} = tuple(OTHER_A)', 'definite'),
    ('nonlocal-chain', 'def _nl2():\n    nonlocal {A}\n    def _nl3():\n        nonlocal {A}\n        {A} = tuple(OTHER_A)', 'definite'),
    ('nonlocal-deep', 'def _nl4():\n    def _nl5():\n        nonlocal {A}\n        {A} = tuple(OTHER_A)', 'definite'),
    ('rebind-in-except', 'try:\n    raise KeyError()\nexcept (KeyError, ValueError):\n    {A} = tuple(OTHER_A)', 'definite'),
    ('tuple-unpack', '{A}, _u = tuple(OTHER_A), 1', 'definite'),
    ('method-call', '{A}.count(1)', 'ambiguous'),
    ('handed-on', 'sink({A})', 'ambiguous'),
    ('alias', 'alias_ = {A}', 'ambiguous'),
    ('read-len', 'len({A})', 'ambiguous'),
    ('read-item', '{A}[0:0]', 'harmless'),
    ('read-truth', 'if {A}: pass', 'harmless'),
    ('read-iter', 'for _x in {A}: pass', 'harmless'),
    ('import-as', 'import os as {A}', 'nonname'),
    ('except-as', 'try:\n    raise KeyError()\nexcept KeyError as {A}:\n    pass', 'nonname'),
    ('def-statement', 'def {A}(): pass', 'nonname'),
    ('class-statement', 'class {A}: pass', 'nonname'),
    ('match-star', 'match tuple(OTHER_A):\n    case [*{A}]:\n        pass', 'nonname'),
    ('match-as', 'match tuple(OTHER_A):\n    case _ as {A}:\n        pass', 'nonname'),
    ('comprehension-target', '[0 for {A} in [tuple(OTHER_A)]]', 'ambiguous'),
]
# statements after which the star name is unbound / no longer a tuple|dict: the body cannot be executed
NOT_EXECUTABLE = {'del', 'import-as', 'from-import-as', 'except-as', 'def-statement', 'class-statement'}

DECOYS = ['sink(1, 2)', 'x_local = 3', 'sink(a_=1)', 'if 0: sink()', 'str(5)', 'sink(*[1, 2])', 'sink(**{{"q": 1}})',
          'y_local = [i for i in range(2)]', 'def _unused(q, *r, **s): return sink(*r, **s)',
          '_lam = lambda *r, **s: sink(*r, **s)', 'assert True', 'global G_', 'pass',
          'def _unused2(q, /, r_=1, *, s_, t_=2): return sink(q)', '_lam2 = lambda q_=1, *, k_: k_',
          '@passthrough\ndef _unused3(q: int = 3, *r_: int, k_: int, **s_: int) -> None: return None']

PRELUDE = '''import functools, contextlib
from sigtools import modifiers
OTHER_A = ()
OTHER_K = {}
def sink(*a, **k): return None
@contextlib.contextmanager
def ctx(v=None):
    yield v
def alt_callee(p, q=1, *, r=2): return None
def wrapping(f):
    @functools.wraps(f)
    def _w(*a_, **k_): return f(*a_, **k_)
    return _w
def passthrough(f):
    return f
'''


def gen_program(case_seed, force=None):
    """-> (source text, meta dict); the meta can be re-rendered (variants).  `force` may pin route / taints for targeted runs."""
    rnd = random.Random(case_seed)
    force = force or {}
    route = force.get('route') or rnd.choice(ROUTES)
    outers = [o for o in sigs.U(('a', 'b'), 2) if sigs.has_kind(o, VA) or sigs.has_kind(o, VK)]
    inners = sigs.U(('x', 'y', 'z'), 3, stars=sigs.STARS2[:1])
    po = rnd.choice(outers)
    if 'taints' not in force and rnd.random() < 0.12:
        # a wider forwarding function: up to three named parameters of its own, drawn by kind profile (several
        # positional-only ones followed by several regular ones, ...)
        for _ in range(30):
            cand = sigs.pick_stratified(rnd, ('a', 'b', 'c'), 3)
            if sigs.has_kind(cand, VA) or sigs.has_kind(cand, VK):
                po = cand
                break
    if route == 'selfmethod' and sigs.has_kind(po, PO) and rnd.random() < 0.5:
        po = tuple(p for p in po if p[1] != PO)
        if not (sigs.has_kind(po, VA) or sigs.has_kind(po, VK)):
            po = po + (('kwargs', VK, None, None),)
    ova, ovk = sigs.star_name(po, VA), sigs.star_name(po, VK)
    # the forwarding function may itself be wrapped by sigtools.modifiers (discovery then goes through the
    # wrapper's hint and its rewritten signature); a second layer / annotate may be applied LATER, after the
    # first layer has already been inspected
    modifier = None
    opk = [p[0] for p in po if p[1] == PK]
    if route in ('global', 'attr', 'param_partial') and opk and 'taints' not in force and rnd.random() < 0.2:
        kind = rnd.choice(('kwoargs', 'posoargs', 'annotate-late', 'stack-late'))
        if route == 'param_partial':
            kind = rnd.choice(('kwoargs', 'posoargs'))      # (the callee reaches the wrapper through the partial object)
        modifier = dict(kind=kind, first='@modifiers.kwoargs(%r)' % opk[-1], late=None)
        if kind == 'posoargs':
            modifier['first'] = '@modifiers.posoargs(end=%r)' % opk[0]
        elif kind == 'annotate-late':
            modifier['late'] = 'modifiers.annotate(%s=7)(outer)' % opk[0]
        elif kind == 'stack-late' and len(opk) >= 2:
            modifier['late'] = 'modifiers.posoargs(end=%r)(outer)' % opk[0]
    ncalls = force.get('ncalls') or rnd.choice([1, 1, 1, 2, 2, 3])
    if route in ('param_partial', 'inner_partial', 'wraps', 'default_param'):
        ncalls = 1
    # now and then the whole module uses postponed annotations (PEP 563) and annotates parameters with names
    # that exist for a type checker only: nothing in retrieval needs their values
    future = 'taints' not in force and rnd.random() < 0.12
    if future:
        po = tuple((n_, k_, d_, ('OnlyForTypeCheckers' if rnd.random() < 0.5 else a_)) for n_, k_, d_, a_ in po)
    calls = []
    for ci in range(ncalls):
        pi = rnd.choice(inners)
        if 'taints' not in force and rnd.random() < 0.15:
            pi = sigs.pick_stratified(rnd, ('w', 'x', 'y', 'z'), 4, sigs.STARS2[:1])
        if future:
            pi = tuple((n_, k_, d_, ('AlsoMissing%d' % rnd.randint(1, 2) if rnd.random() < 0.6 else a_)) for n_, k_, d_, a_ in pi)
        if rnd.random() < 0.05:
            pi = tuple((('a' if k == 0 and p[1] not in (VA, VK) else p[0]),) + p[1:] for k, p in enumerate(pi))
        elif 'taints' not in force and rnd.random() < 0.06:
            # the name of ANY of the wrapper's own parameters (keyword-only ones included) for any one of the callee's:
            # the declaration cannot be honoured, the plain signature is all that can be said
            onames = [p[0] for p in po if p[1] not in (VA, VK)]
            inamed = [k for k, p in enumerate(pi) if p[1] not in (VA, VK)]
            if onames and inamed:
                k_, nm_ = rnd.choice(inamed), rnd.choice(onames)
                if nm_ not in [p[0] for p in pi]:
                    pi = tuple(((nm_,) + p[1:]) if j == k_ else p for j, p in enumerate(pi))
        ipos = [p[0] for p in pi if p[1] in (PO, PK)]
        ivp, ivk = sigs.has_kind(pi, VA), sigs.has_kind(pi, VK)
        n = rnd.randint(0, min(3 if len(pi) > 3 else 2, len(ipos) + (1 if ivp else 0)))
        consumed = set(ipos[:n])
        cand = [p[0] for p in pi if p[1] in (PK, KO) and p[0] not in consumed] + (['zq'] if ivk else [])
        names = tuple(rnd.sample(cand, rnd.randint(0, min(2, len(cand)))))
        star = 'none'
        if ova:
            star = rnd.choice(['own'] * 7 + ['none', 'other', 'double'])
        elif rnd.random() < 0.15:
            star = 'other'
        dstar = 'none'
        if ovk:
            dstar = rnd.choice(['own'] * 7 + ['none', 'other', 'double'])
        elif rnd.random() < 0.15:
            dstar = 'other'
        if star != 'own' and dstar != 'own' and star != 'other' and dstar != 'other':
            # a call that forwards nothing is ignored by discovery: it has to succeed by itself
            pos = [p for p in pi if p[1] in (PO, PK)]
            req = [k for k, p in enumerate(pos) if p[2] is None]
            n = (req[-1] + 1) if req else 0
            names = tuple(p[0] for p in pi if p[1] == KO and p[2] is None)
        else:
            # now and then the call written cannot be honoured by the callee at all (mask stage of the
            # declaration fails): discovery has to fall back to the plain signature (C06, C07, C15)
            if 'taints' not in force and rnd.random() < 0.07:
                opts = []
                if not ivp:
                    opts.append('too-many-positionals')
                if not ivk:
                    opts.append('unknown-keyword')
                if [x for x in ipos[:n] if x in [p[0] for p in pi if p[1] == PK]]:
                    opts.append('duplicate')
                if opts:
                    bad = rnd.choice(opts)
                    if bad == 'too-many-positionals':
                        n = len(ipos) + 1
                    elif bad == 'unknown-keyword':
                        names = names + ('zq',)
                    else:
                        names = names + (rnd.choice([x for x in ipos[:n] if x in [p[0] for p in pi if p[1] == PK]]),)
        ctx = force.get('ctx') or rnd.choice(CONTEXTS)
        if ctx == 'return' and ci != ncalls - 1:
            ctx = 'assign'
        dress = None
        if route in ('global', 'closure', 'attr', 'inner_partial', 'callobj', 'param_partial') and 'taints' not in force \
                and rnd.random() < 0.12:
            dress = rnd.choice(('lru_cache', 'wraps', 'partial-route' if route in ('global', 'closure') else 'wraps'))
        via_local = ncalls >= 2 and 'taints' not in force and route in ('global', 'closure', 'attr', 'selfmethod', 'callobj', 'clsmethod') \
            and rnd.random() < 0.1
        # one of several forwarding calls only BUILDS a partial object (functools.partial(callee, *args, **kwargs)),
        # next to calls that really call: the partial correction belongs to that call alone
        as_partial = ncalls >= 2 and 'taints' not in force and not via_local and route in ('global', 'closure', 'attr', 'callobj') \
            and rnd.random() < 0.12
        calls.append(dict(pi=pi, n=n, names=names, star=star, dstar=dstar, ctx=ctx, dress=dress, via_local=via_local, as_partial=as_partial,
                          nested=ctx in NESTED_CONTEXTS, lead=[rnd.choice(('0', '0', 'None')) for _ in range(max(n, 2))][:n]))
    # a taint inside the forwarding call's own arguments: Python evaluates the explicit arguments before it
    # unpacks **kwargs, so `callee(kwargs.pop("k", None), **kwargs)` forwards a dict that was mutated first
    if ncalls == 1 and 'taints' not in force and ovk and calls[0]['dstar'] == 'own' and calls[0]['n'] >= 1 \
            and rnd.random() < 0.08:
        calls[0]['lead'][0] = rnd.choice(('%s.pop("zq9", None)', 'sink(%s)')) % ovk
        calls[0]['incall_kw'] = True
    # taints
    taints = []
    if 'taints' in force:
        taints = force['taints']
    else:
        for kind, name, table in (('va', ova, TAINTS_VA), ('kw', ovk, TAINTS_KW)):
            if name and rnd.random() < 0.22:
                label, tmpl, cls = rnd.choice(table)
                taints.append(dict(kind=kind, label=label, cls=cls, pos=rnd.randint(0, ncalls)))
    # pos = index of the call the taint statement precedes (ncalls = after the last call)
    decoys_head = [rnd.choice(DECOYS).format() for _ in range(rnd.choice((0, 0, 1, 2)))]
    # reading another attribute of the object the callee is an attribute of (as an ordinary argument of
    # an unrelated call) changes nothing
    if route == 'attr' and rnd.random() < 0.5:
        decoys_head.append(rnd.choice(('sink(ns.label)', 'sink(q_=ns.sub.label)', 'x_local = ns.sub.label', 'sink(ns.sub.label, ns.label)')))
    if route in ('selfmethod', 'default_param') and rnd.random() < 0.5:
        decoys_head.append(rnd.choice(('sink(self.label)', 'sink(q_=self.label)', 'x_local = self.label')))
    if route == 'clsmethod' and rnd.random() < 0.5:
        decoys_head.append(rnd.choice(('sink(cls.label)', 'sink(q_=cls.label)', 'x_local = cls.label')))
    for c in calls:
        c['decoy_after'] = rnd.choice(DECOYS).format() if rnd.random() < 0.25 else None
    meta = dict(case_seed=case_seed, route=route, po=po, ova=ova, ovk=ovk, calls=calls, taints=taints,
                decoys_head=decoys_head, decorate_outer=False, extra_tail=[], modifier=modifier, future=future)
    return render(meta), meta


def render(meta):
    route, po, calls, taints = meta['route'], meta['po'], meta['calls'], meta['taints']
    ova, ovk = meta['ova'], meta['ovk']
    ncalls = len(calls)
    body = list(meta['decoys_head'])
    stmts_by_pos = {}
    for t in taints:
        table = TAINTS_VA if t['kind'] == 'va' else TAINTS_KW
        tmpl = next(x[1] for x in table if x[0] == t['label'])
        text = tmpl.format(A=ova, K=ovk)
        t['text'] = text
        stmts_by_pos.setdefault(t['pos'], []).append(text)
    for ci, c in enumerate(calls):
        body += stmts_by_pos.get(ci, [])
        cname = callee_ref(route, ci)
        if c.get('via_local'):
            # the callee is first stored in a local variable: nothing can be known about it statically
            body.append('loc%d_ = %s' % (ci, cname))
            cname = 'loc%d_' % ci
        fa = list(c['lead'])
        if c.get('dress') == 'partial-route':
            fa.insert(0, 'callee%d_real' % ci)
        if c['star'] == 'own':
            fa.append('*' + ova)
        elif c['star'] == 'other':
            fa.append('*OTHER_A')
        elif c['star'] == 'double':
            fa += ['*' + ova, '*OTHER_A']
        fa += ['%s=0' % k for k in c['names']]
        if c['dstar'] == 'own':
            fa.append('**' + ovk)
        elif c['dstar'] == 'other':
            fa.append('**OTHER_K')
        elif c['dstar'] == 'double':
            fa += ['**' + ovk, '**OTHER_K']
        if route == 'inner_partial' or c.get('as_partial'):
            call = 'functools.partial(%s)' % ', '.join([cname] + fa)
        else:
            call = '%s(%s)' % (cname, ', '.join(fa))
        c['text'] = call
        body += wrap_context(c['ctx'], call)
        if c.get('decoy_after'):
            body.append(c['decoy_after'])
    body += stmts_by_pos.get(ncalls, [])
    body += meta.get('extra_tail', [])
    if not body:
        body = ['pass']
    src, target_expr = assemble(route, po, calls, body, decorate=meta.get('decorate_outer', False),
                                modifier=meta.get('modifier'))
    if meta.get('future'):
        src = 'from __future__ import annotations\n' + src
    return src


def variant(meta, rnd):
    """A semantically irrelevant variation of the program: other statement
    contexts (same scope class), more decoys and unrelated statements, a
    wrapping-only decorator on outer."""
    import copy
    m = copy.deepcopy(meta)
    n = len(m['calls'])
    for ci, c in enumerate(m['calls']):
        pool = [x for x in CONTEXTS if DEFER_DEPTH.get(x, 0) == DEFER_DEPTH.get(c['ctx'], 0)]
        if ci != n - 1:
            pool = [x for x in pool if x != 'return']
        c['ctx'] = rnd.choice(pool)
        c['decoy_after'] = rnd.choice(DECOYS).format() if rnd.random() < 0.5 else None
    m['decoys_head'] = [rnd.choice(DECOYS).format() for _ in range(rnd.randint(0, 3))]
    if not any(c['ctx'] == 'return' for c in m['calls']):
        m['extra_tail'] = [rnd.choice(('zz_local = 1', 'sink(3)', 'return None'))]
    m['decorate_outer'] = rnd.random() < 0.5 and m['route'] not in ('wraps',)
    return render(m), m


def callee_ref(route, ci):
    if route == 'global':
        return 'callee%d' % ci
    if route == 'closure':
        return 'c%d' % ci
    if route == 'attr':
        return 'ns.sub.fn%d' % ci
    if route == 'selfmethod':
        return 'self.callee%d' % ci
    if route == 'param_partial':
        return 'func'
    if route == 'inner_partial':
        return 'callee%d' % ci
    if route == 'callobj':
        return 'callee%d' % ci
    if route == 'clsmethod':
        return 'cls.callee%d' % ci
    if route == 'wraps':
        return 'fn'
    if route == 'default_param':
        return 'func'
    raise KeyError(route)


def wrap_context(ctx, call):
    if ctx == 'expr':
        return [call]
    if ctx == 'return':
        return ['return ' + call]
    if ctx == 'assign':
        return ['res_ = ' + call]
    if ctx == 'if':
        return ['if True:', '    ' + call]
    if ctx == 'ifelse':
        return ['if 0:', '    pass', 'else:', '    ' + call]
    if ctx == 'try':
        return ['try:', '    ' + call, 'except KeyError:', '    pass']
    if ctx == 'except':
        return ['try:', '    raise KeyError()', 'except KeyError:', '    ' + call]
    if ctx == 'except_bare':
        return ['try:', '    raise KeyError()', 'except:', '    ' + call]
    if ctx == 'except_tuple':
        return ['try:', '    raise KeyError()', 'except (ValueError, KeyError):', '    ' + call]
    if ctx == 'except_as':
        return ['try:', '    raise KeyError()', 'except KeyError as exc_:', '    ' + call]
    if ctx == 'tryelse':
        return ['try:', '    pass', 'except KeyError:', '    pass', 'else:', '    ' + call]
    if ctx == 'tryfinally':
        return ['try:', '    pass', 'finally:', '    ' + call]
    if ctx == 'with':
        return ['with ctx():', '    ' + call]
    if ctx == 'for':
        return ['for _j in range(1):', '    ' + call]
    if ctx == 'while':
        return ['_w = 1', 'while _w:', '    _w = 0', '    ' + call]
    if ctx == 'listcomp':
        return ['[%s for _i in range(1)]' % call]
    if ctx == 'genexp':
        return ['list(%s for _i in range(1))' % call]
    if ctx == 'dictcomp':
        return ['{_i: %s for _i in range(1)}' % call]
    if ctx == 'nested':
        return ['def _inner():', '    return ' + call, '_inner()']
    if ctx == 'nested_decorated':
        return ['@passthrough', 'def _inner2():', '    return ' + call, '_inner2()']
    if ctx == 'lambda':
        return ['(lambda: %s)()' % call]
    if ctx == 'argof':
        return ['sink(%s)' % call]
    if ctx == 'starof':
        return ['sink(*[%s])' % call]
    if ctx == 'dstarof':
        return ['sink(**{"r_": %s})' % call]
    if ctx == 'ternary':
        return ['res_ = %s if True else None' % call]
    if ctx == 'fstring':
        return ['f"{%s}"' % call]
    if ctx == 'await_free_walrus':
        return ['(res2_ := %s)' % call]
    # a call in a nested scope that is itself a sub-expression of another call there
    if ctx == 'nested_argof':
        return ['def _inner3():', '    return sink(%s)' % call, '_inner3()']
    if ctx == 'lambda_argof':
        return ['(lambda: sink(%s))()' % call]
    if ctx == 'nested_kwof':
        return ['def _inner4():', '    return sink(r_=%s)' % call, '_inner4()']
    if ctx == 'nested_starof':
        return ['def _inner5():', '    return sink(*[%s])' % call, '_inner5()']
    if ctx == 'nested_twice':
        return ['def _inner6():', '    def _inner7():', '        return %s' % call, '    return _inner7()', '_inner6()']
    if ctx == 'lambda_in_nested':
        return ['def _inner8():', '    return (lambda: sink(0, %s))()' % call, '_inner8()']
    if ctx == 'nested_receiver':
        return ['def _inner9():', '    return str(%s).strip()' % call, '_inner9()']
    raise KeyError(ctx)


def assemble(route, po, calls, body, decorate=False, modifier=None):
    ostr = sigs.render(po)
    deco = '@passthrough\n' if decorate else ''
    if modifier:
        deco += modifier['first'] + '\n'
    ind = lambda lines, k=1: textwrap.indent('\n'.join(lines), '    ' * k)
    src = PRELUDE
    defs = ''.join('def callee%d(%s): return None\n' % (i, sigs.render(c['pi'])) for i, c in enumerate(calls))
    # a callee may be "dressed": wrapped by functools.lru_cache (a C object carrying __wrapped__ that has no
    # signature of its own once stripped) or by a functools.wraps pass-through wrapper
    for i, c in enumerate(calls):
        if c.get('dress') == 'lru_cache':
            defs += 'callee%d = functools.lru_cache(maxsize=None)(callee%d)\n' % (i, i)
        elif c.get('dress') == 'wraps':
            defs += 'callee%d = wrapping(callee%d)\n' % (i, i)
        elif c.get('dress') == 'partial-route':
            # the callee is a functools.partial OBJECT that binds one positional of a routing function; the call hands the
            # real target over as the next positional: route_(audit_, target, ...) calls target(...)
            defs += ('def route_(pre_, fn_, *a_, **k_): return fn_(*a_, **k_)\ndef audit_(tag_="x", *, level_=0): return None\n'
                     'callee%d_real = callee%d\ncallee%d = functools.partial(route_, audit_)\n' % (i, i, i))
    n = len(calls)
    if route == 'global' or route == 'inner_partial':
        if (len(ostr) + len(body) + n) % 4 == 0:
            # an earlier definition of the same name in the same file, forwarding elsewhere, and already inspected
            # when the real one is defined (redefinition, the two branches of an `if`): whatever is remembered about a
            # function's source must be remembered for THAT function
            src += ('def outer(*args, **kwargs):\n    return alt_callee(*args, **kwargs)\n_earlier_outer = outer\n'
                    'import sigtools as _st_\n_earlier_sig = _st_.signature(_earlier_outer)\n')
        src += defs + deco + 'def outer(%s):\n%s\ntarget = outer\nraw_outer = outer\n' % (ostr, ind(body))
        src += 'callee_objs = [%s]\n' % ', '.join('callee%d' % i for i in range(n))
    elif route == 'closure':
        # module globals named like the closure variables, bound to unrelated functions: the closure wins
        src += ''.join('def c%d(zz1, zz2, zz3, zz4): return None\n' % i for i in range(n))
        src += defs + 'def make():\n' + ''.join('    c%d = callee%d\n' % (i, i) for i in range(n))
        src += '    def outer(%s):\n%s\n    return outer\ntarget = make()\nraw_outer = target\n' % (ostr, ind(body, 2))
        src += 'callee_objs = [%s]\n' % ', '.join('callee%d' % i for i in range(n))
    elif route == 'attr':
        src += defs + 'class NS(object): pass\nns = NS(); ns.sub = NS(); ns.label = 1; ns.sub.label = 2\n'
        src += ''.join('ns.sub.fn%d = callee%d\n' % (i, i) for i in range(n))
        src += (deco if modifier else '') + 'def outer(%s):\n%s\ntarget = outer\nraw_outer = outer\n' % (ostr, ind(body))
        src += 'callee_objs = [%s]\n' % ', '.join('callee%d' % i for i in range(n))
    elif route == 'selfmethod':
        selfo = 'self' + (', ' + ostr if ostr else '')
        src += 'class C(object):\n    label = 1\n    def __len__(self): return 0\n'
        for i, c in enumerate(calls):
            r = sigs.render(c['pi'])
            src += '    def callee%d(%s): return None\n' % (i, 'self' + (', ' + r if r else ''))
        src += '    def outer(%s):\n%s\nobj = C()\ntarget = obj.outer\nraw_outer = C.outer\n' % (selfo, ind(body, 2))
        src += 'callee_objs = [%s]\n' % ', '.join('obj.callee%d' % i for i in range(n))
    elif route == 'callobj':
        # the wrapper is a callable *instance*: its __call__ forwards.  The class itself is no wrapper at all
        # (calling it runs the constructor, where nothing is forwarded)
        selfo = 'self' + (', ' + ostr if ostr else '')
        init = ['', '    def __init__(self, q_=1, *rest_, **more_): pass\n', '    def __init__(self): pass\n'][len(body) % 3]
        src += defs + 'class W(object):\n    label = 1\n' + init
        src += '    def __call__(%s):\n%s\nwobj = W()\ntarget = wobj\nraw_outer = W.__call__\nclass_target = W\n' % (selfo, ind(body, 2))
        src += 'callee_objs = [%s]\n' % ', '.join('callee%d' % i for i in range(n))
    elif route == 'clsmethod':
        # a classmethod forwarding to static / class methods looked up on cls; retrieved through the class or an instance
        clso = 'cls' + (', ' + ostr if ostr else '')
        src += 'class K(object):\n    label = 1\n'
        for i, c in enumerate(calls):
            r = sigs.render(c['pi'])
            if (i + len(body)) % 2:
                src += '    @staticmethod\n    def callee%d(%s): return None\n' % (i, r)
            else:
                src += '    @classmethod\n    def callee%d(%s): return None\n' % (i, 'cls' + (', ' + r if r else ''))
        src += '    @classmethod\n    def outer(%s):\n%s\n' % (clso, ind(body, 2))
        src += 'target = %s\nraw_outer = K.__dict__["outer"].__func__\n' % ('K.outer' if len(body) % 3 else 'K().outer')
        src += 'callee_objs = [%s]\n' % ', '.join('K.callee%d' % i for i in range(n))
    elif route == 'param_partial':
        fo = 'func' + (', ' + ostr if ostr else '')
        # (a module global named like the parameter, bound to an unrelated function: the parameter wins)
        src += 'def func(zz1, zz2, zz3, zz4): return None\n'
        src += defs + (deco if modifier else '') + 'def outer(%s):\n%s\ntarget = functools.partial(outer, callee0)\nraw_outer = outer\n' % (fo, ind(body))
        src += 'callee_objs = [callee0]\n'
    elif route == 'default_param':
        # the callee is only the DEFAULT of a keyword-only parameter of a method retrieved bound: a caller
        # may pass another one, so nothing can be known about it (the statement: callee cannot be resolved)
        lst = list(po)
        at = next((k for k, p in enumerate(lst) if p[1] == VK), len(lst))
        lst.insert(at, ('func', KO, 'callee0', None))
        fo = sigs.render(tuple(lst))
        src += 'def func(zz1, zz2, zz3, zz4): return None\n'
        src += defs + 'class C(object):\n    label = 1\n    def outer(self, %s):\n%s\nobj = C()\ntarget = obj.outer\nraw_outer = C.outer\n' % (fo, ind(body, 2))
        src += 'callee_objs = [callee0]\n'
    elif route == 'wraps':
        src += defs + 'def deco(fn):\n    @functools.wraps(fn)\n    def outer(%s):\n%s\n    return outer\n' % (ostr, ind(body, 2))
        src += 'target = deco(callee0)\nraw_outer = target\ncallee_objs = [callee0]\n'
    return src, 'target'


def load(src):
    return sigs.compile_module(src, tag='vauto')


# ------------------------------------------------------------- ground truth

def taint_status(meta, ci, kind):
    """'clean' | 'tainted' | 'either' for the own star of `kind` at call ci."""
    c = meta['calls'][ci]
    status = 'clean'
    if kind == 'kw' and c.get('incall_kw'):
        return 'tainted'
    for t in meta['taints']:
        if t['kind'] != kind:
            continue
        before = t['pos'] <= ci
        cls = t['cls']
        if cls == 'harmless':
            continue
        if cls == 'nonname':
            # the statement says 'rebound' => tainted; the code does not see these (finding)
            if before or c['nested']:
                status = 'nonname' if status == 'clean' else status
            continue
        if before:
            eff = 'tainted' if cls == 'definite' else 'either'
        elif c['nested']:
            eff = 'either'      # a taint after a call placed in a nested scope: not classified
        else:
            continue
        if eff == 'tainted' or status == 'clean':
            status = eff
    return status


def own_signature(meta, g):
    """Plain signature of the def of outer itself (not following __wrapped__)."""
    from sigtools import signatures
    raw = g['raw_outer']
    if meta.get('modifier'):
        return signatures.signature(g['raw_outer'] if meta['route'] == 'param_partial' else g['target'])
    if meta['route'] == 'wraps':
        saved = raw.__dict__.pop('__wrapped__')
        try:
            return signatures.signature(raw)
        finally:
            raw.__wrapped__ = saved
    return signatures.signature(raw)


class CalleeRetrievalRaises(Exception):
    pass


def expected_alternatives(meta, g):
    """All signatures the statement of C06 admits for this program, as a list of
    (tag, signature-or-'plain').  More than one when a taint is 'either', when
    several calls may be merged in several orders, ..."""
    import sigtools
    from sigtools import signatures
    osig = own_signature(meta, g)
    calls = meta['calls']
    choices = []           # per call: list of (use_va, hide_a, use_kw, hide_k) alternatives
    for ci, c in enumerate(calls):
        alts_va = star_alternatives(c['star'], taint_status(meta, ci, 'va'))
        alts_kw = star_alternatives(c['dstar'], taint_status(meta, ci, 'kw'))
        choices.append([(a, k) for a in alts_va for k in alts_kw])
    out = []
    for combo in itertools.product(*choices):
        out.extend(expected_for(meta, g, osig, combo))
    broken = [s for tag, s in out if tag == 'callee-retrieval-raises']
    if broken:
        raise CalleeRetrievalRaises(broken[0])
    # de-duplicate
    uniq = []
    for tag, s in out:
        key = 'plain' if isinstance(s, str) else sig_key(s)
        if key not in [u[0] for u in uniq]:
            uniq.append((key, tag, s))
    return [(tag, s) for key, tag, s in uniq]


def star_alternatives(written, status):
    if written == 'none':
        return [(False, False)]
    if written in ('other', 'double'):
        return [(False, True)]
    if status == 'clean':
        return [(True, False)]
    if status == 'tainted':
        return [(False, True)]
    if status == 'nonname':
        return [(False, True)]       # what the statement demands; the code's answer is classified as a finding
    return [(True, False), (False, True)]


def expected_for(meta, g, osig, combo):
    import sigtools
    from sigtools import signatures
    route = meta['route']
    sigs_ = []
    for c, ((use_va, hide_a), (use_kw, hide_k)), callee in zip(meta['calls'], combo, g['callee_objs']):
        if not (use_va or use_kw):
            continue
        if route == 'default_param':
            return [('callee-is-only-a-default', 'plain')]
        if c.get('via_local'):
            return [('callee-is-a-local-variable', 'plain')]
        try:
            isig = sigtools.signature(callee)
        except Exception as e:
            # every callee of the grammar is an introspectable def, possibly dressed: "cannot be resolved" never applies
            return [('callee-retrieval-raises', e)]
        try:
            sigs_.append(signatures.forwards(
                osig, isig, c['n'] + (1 if c.get('dress') == 'partial-route' else 0), *c['names'], use_varargs=use_va, use_varkwargs=use_kw,
                hide_args=hide_a, hide_kwargs=hide_k, partial=(route == 'inner_partial' or bool(c.get('as_partial')))))
        except ValueError:
            return [('forwards-raises', 'plain')]
    if not sigs_:
        return [('nothing-forwarded', 'plain')]
    results = []
    for perm in set(itertools.permutations(range(len(sigs_)))):
        try:
            m = signatures.merge(*[sigs_[i] for i in perm])
        except ValueError:
            results.append(('merge-raises', 'plain'))
            continue
        if route in ('selfmethod', 'callobj', 'clsmethod'):
            try:
                m = signatures.mask(m, 1)
            except ValueError:
                results.append(('mask-raises', 'plain'))
                continue
        results.append(('merged', m))
    return results


def partial_layer(sig, pobj):
    """Expected effect of retrieving through partial(outer, callee): first
    parameter bound, every depth + 1, the partial object at depth 0."""
    from sigtools import signatures
    m = signatures.mask(sig, 1)
    names, depths = src_as_sets(m)
    depths = {k: v + 1 for k, v in depths.items()}
    depths[ident(pobj)] = 0
    return m, names, depths


# ------------------------------------------------------------------ checker

def sig_key(s, by_name=False):
    """Comparable rendering of a signature: parameters with metadata + provenance."""
    from .sigutil import meta, fname
    if by_name:
        src = {k: sorted(fname(f) for f in v) for k, v in s.sources.items() if k != '+depths'}
        dep = sorted((fname(f), d) for f, d in s.sources.get('+depths', {}).items())
        # (function objects used as default values have no stable repr across two compilations)
        text = tuple((q.name, str(q.kind), fname(q.default) if callable(q.default) else repr(q.default),
                      repr(q.annotation)) for q in s.parameters.values())
        return (text, repr(sorted(src.items())), repr(dep))
    names, depths = src_as_sets(s)
    return (tuple(bparams(s)), tuple(repr(p.default) for p in s.parameters.values()),
            tuple(repr(p.annotation) for p in s.parameters.values()),
            repr(sorted((k, sorted(map(repr, v))) for k, v in names.items())), repr(sorted(map(repr, depths.items()))))


def matches(S, alt, meta, g, plain):
    """Does the discovered signature S equal the alternative?"""
    if isinstance(alt, str):
        return sig_key(S) == sig_key(plain)
    if meta['route'] == 'param_partial':
        try:
            m, names, depths = partial_layer(alt, g['target'])
        except ValueError:
            return False
        sn, sd = src_as_sets(S)
        return bparams(S) == bparams(m) and sn == names and sd == depths
    return sig_key(S) == sig_key(alt)


def foreign_for_program(meta):
    """One fixed OTHER_A/OTHER_K satisfying every call, or None (retrieval only)."""
    from . import w_decl
    calls = meta['calls']
    if any(c['star'] == 'double' or c['dstar'] == 'double' for c in calls):
        return None
    others = [c for c in calls if c['star'] == 'other' or c['dstar'] == 'other']
    if not others:
        return (), {}
    if len(calls) > 1:
        return None
    c = calls[0]
    if (c['star'] == 'other' and meta['ova'] and False):
        return None
    return w_decl.foreign_values(dict(i=c['pi'], n=c['n'], names=c['names'], hide_args=c['star'] == 'other',
                                      hide_kwargs=c['dstar'] == 'other', pass_va=c['star'] == 'own'))


def nonname_only(meta, kind):
    ts = [t for t in meta['taints'] if t['kind'] == kind and t['cls'] != 'harmless']
    return ts and all(t['cls'] == 'nonname' for t in ts)


@core.guarded(lambda case_seed, want=None, force=None, variants=0: dict(workload='auto', case_seed=case_seed, force=force))
def check_program(ctx, case_seed, want=('C05', 'C06', 'C07'), force=None, variants=0):
    import sigtools
    from sigtools import signatures
    src, meta = gen_program(case_seed, force)
    rp = dict(workload='auto', case_seed=case_seed, force=force, source=src)
    body = src.split('def passthrough(f):\n    return f\n', 1)[1]
    w = {'program': body, 'route': meta['route'],
         'taints': [(t['kind'], t['label'], t['cls'], 'before call %d' % t['pos']) for t in meta['taints']]}
    ctx.evaluated()
    ctx.count('auto.programs')
    ctx.count('auto.route_' + meta['route'])
    try:
        g = load(src)
    except Exception as e:
        ctx.count('auto.generator_error')
        ctx.inconclusive.append('generated program does not compile: %r (seed %r)' % (e, case_seed)) \
            if ctx.counters['auto.generator_error'] > 20 else None
        return None
    target = g['target']
    pre = random.Random(case_seed ^ 0x9e3779b9)
    if pre.random() < 0.35:
        # other retrievals happen first, on the objects around the wrapper (its class-level / undecorated form,
        # the callees, the wrapper itself, with and without discovery): whatever they leave behind must not matter
        ctx.count('auto.pre_queries')
        w['retrieved_before'] = []
        for label, o in [('raw_outer', g.get('raw_outer'))] + [('callee', c) for c in g.get('callee_objs', ())] + [('target', target)]:
            if o is None or pre.random() < 0.4:
                continue
            for retr in (sigtools.signature, inspect.signature, lambda x: sigtools.signature(x, auto=False)):
                if pre.random() < 0.5:
                    try:
                        retr(o)
                    except Exception:
                        pass
            w['retrieved_before'].append(label)
    mod = meta.get('modifier')
    if mod:
        ctx.count('auto.modifier_wrapped_outer')
        w['modifier'] = mod['first']
        if mod.get('late'):
            # the first layer is inspected, then another layer / annotate is applied on top of it
            for retr in (sigtools.signature, inspect.signature):
                try:
                    retr(g['outer'])
                except Exception:
                    pass
            try:
                target = g['target'] = eval(mod['late'], g)
            except Exception as e:
                ctx.count('auto.late_layer_inadmissible')
                return None
            w['applied_after_first_inspection'] = mod['late']
            ctx.count('auto.late_layer_applied')
    try:
        S = sigtools.signature(target)
    except Exception as e:
        for p in want:
            if p in ('C07', 'C05', 'C06', 'C15'):
                ctx.violation(p, 'AutoBoundary', 'retrieval-raises-%s' % type(e).__name__,
                              'sigtools.signature raised %s on a generated forwarding program: %s' % (type(e).__name__, e),
                              dict(w, exception=repr(e)), rp)
        return None
    plain = signatures.signature(target)
    discovered = sig_key(S) != sig_key(plain)
    if discovered:
        ctx.count('auto.discovery_changed_signature')
    key = (meta['route'], sigs.shape_key(meta['po']),
           tuple((sigs.shape_key(c['pi']), c['n'], c['names'], c['star'], c['dstar'], c['ctx']) for c in meta['calls']),
           tuple((t['kind'], t['label'], t['pos']) for t in meta['taints']))
    if discovered:
        ctx.nontrivial(key)
    ctx.sample('program', lambda: dict(w, discovered=show(S), plain=show(plain)), limit=4)
    result = dict(meta=meta, g=g, S=S, plain=plain, discovered=discovered, w=w, rp=rp)

    # ---------------- C06: discovery == declaration
    if 'C06' in want:
        ctx.count('C06.compared')
        try:
            alts = expected_alternatives(meta, g)
        except CalleeRetrievalRaises as e:
            ctx.violation('C06', 'AutoBoundary', 'callee-retrieval-raises-%s' % type(e.args[0]).__name__,
                          'sigtools.signature raised on a callee of the program (an introspectable def, possibly wrapped by lru_cache / functools.wraps)',
                          dict(w, exception=repr(e.args[0]), discovered=show(S)), rp)
            alts = None
        ok = alts is None or any(matches(S, a, meta, g, plain) for tag, a in alts)
        if alts is None:
            pass
        elif ok:
            if len(alts) > 1:
                ctx.count('C06.accepted_one_of_several')
        else:
            mech = classify_nonname(ctx, meta, g, S, plain)
            if mech:
                ctx.violation('C06', 'AutoBoundary', mech,
                              'discovery does not see a rebinding through a binding construct that is not a Name node', dict(w, discovered=show(S)), rp)
            else:
                ctx.violation('C06', 'AutoBoundary', 'discovery-differs-from-declaration@' + meta['route'],
                              'the discovered signature differs from the explicit declaration of the forwarding actually written',
                              dict(w, discovered=show(S), discovered_sources=sources_view(S),
                                   declared=[(tag, show(a) if not isinstance(a, str) else 'plain: ' + show(plain)) for tag, a in alts][:4],
                                   declared_sources=[sources_view(a) for tag, a in alts if not isinstance(a, str)][:2]), rp)
        if 'class_target' in g:
            # the class of a callable instance: constructing it forwards nothing, whatever its __call__ does
            ctx.count('C06.class_of_callable_instance_compared')
            K = g['class_target']
            try:
                kS, kP = sigtools.signature(K), signatures.signature(K)
            except Exception as e:
                ctx.violation('C06', 'AutoBoundary', 'class-of-callable-instance-raises-%s' % type(e).__name__,
                              'retrieval raised on the class of a callable instance', dict(w, exception=repr(e)), rp)
            else:
                if sig_key(kS) != sig_key(kP):
                    ctx.violation('C06', 'AutoBoundary', 'class-reported-with-signature-of-its-instances-call',
                                  'a class whose instances are callable is reported with something else than its plain (constructor) signature',
                                  dict(w, on_class=show(kS), on_class_sources=sources_view(kS), plain=show(kP)), rp)
        # metamorphic variants
        rnd = random.Random(case_seed ^ 0x5bd1e995)
        for v in range(variants):
            vsrc, vmeta = variant(meta, rnd)
            try:
                vg = load(vsrc)
                if vmeta.get('modifier') and vmeta['modifier'].get('late'):
                    vg['target'] = eval(vmeta['modifier']['late'], vg)
                vS = sigtools.signature(vg['target'])
            except Exception as e:
                ctx.violation('C06', 'AutoBoundary', 'variant-raises-%s' % type(e).__name__,
                              'a semantically irrelevant variation of the program makes retrieval raise %s' % type(e).__name__,
                              dict(w, variant=vsrc.split('def passthrough(f):\n    return f\n', 1)[1], exception=repr(e)),
                              dict(rp, variant=v))
                continue
            ctx.count('C06.variants_compared')
            if sig_key(vS, by_name=True) != sig_key(S, by_name=True):
                if classify_nonname(ctx, meta, g, S, plain):
                    continue
                ctx.violation('C06', 'AutoBoundary', 'variant-changes-result',
                              'a semantically irrelevant variation of the source changes the discovered signature',
                              dict(w, variant=vsrc.split('def passthrough(f):\n    return f\n', 1)[1],
                                   base=show(S), varied=show(vS), base_sources=sources_view(S), varied_sources=sources_view(vS)),
                              dict(rp, variant=v))

    # ---------------- C07: the three retrievals + narrowing of the own parameter list (plain functions / methods)
    if 'C07' in want:
        from . import w_corpus
        w_corpus.check_callable(ctx, 'generated-program-%d' % case_seed, 'function', target, sphinx=False, rp=rp)

    # ---------------- C05: taint clause + soundness by execution
    if 'C05' in want:
        own = {p[0] for p in meta['po']} | ({'func'} if meta['route'] in ('param_partial', 'default_param') else set())
        for kind, star_name, kinds in (('va', meta['ova'], (PO, PK)), ('kw', meta['ovk'], (PK, KO))):
            if not star_name:
                continue
            statuses = [taint_status(meta, ci, kind) for ci, c in enumerate(meta['calls'])
                        if (c['star'] if kind == 'va' else c['dstar']) == 'own']
            if not statuses:
                continue
            if all(s in ('tainted', 'nonname') for s in statuses) and discovered:
                # (a signature equal to plain retrieval is always admitted: for a
                # functools.wraps wrapper plain retrieval itself follows __wrapped__)
                ctx.count('C05.taint_clause_checked')
                res = bparams(S)
                foreign_params = [p[0] for p in res if p[1] in kinds and p[0] not in own]
                kept = any(p[0] == star_name and p[1] == (VA if kind == 'va' else VK) for p in res)
                if foreign_params or not kept:
                    if all(s == 'nonname' for s in statuses) or nonname_only(meta, kind):
                        label = next(t['label'] for t in meta['taints'] if t['kind'] == kind and t['cls'] == 'nonname')
                        ctx.violation('C05', 'AutoBoundary', 'nonname-binding-' + label,
                                      'the %s parameter is rebound through a binding construct that is not a Name node, yet the callee parameters are advertised' % ('*' + star_name if kind == 'va' else '**' + star_name),
                                      dict(w, discovered=show(S)), rp)
                    else:
                        ctx.violation('C05', 'AutoBoundary', 'tainted-star-still-forwarded',
                                      'the %s parameter is rebound/mutated/handed on before the call, yet the callee parameters %s are advertised%s' % (
                                          ('*' if kind == 'va' else '**') + star_name, foreign_params, '' if kept else ' and the own star parameter is gone'),
                                      dict(w, discovered=show(S)), rp)
        if discovered:
            execute_soundness(ctx, meta, g, S, w, rp)
    if ('C05' in want or 'C06' in want) and force is None:
        requery_after_rebinding(ctx, meta, g, want, w, rp)
    return result


REBINDABLE = ('global', 'attr', 'inner_partial')


def requery_after_rebinding(ctx, meta, g, want, w, rp):
    """The callee is looked up late (a global, an attribute): after it is rebound to a function with
    another signature the same wrapper object forwards to that one.  Retrieval now must give what
    it gives for a fresh program written against the new callee -- nothing remembered from before."""
    import copy
    import sigtools
    from sigtools import signatures
    if meta['route'] not in REBINDABLE or meta.get('modifier') or random.Random(meta['case_seed'] ^ 0x51ed27).random() > 0.6:
        return
    c0 = meta['calls'][0]
    if c0['star'] != 'own' and c0['dstar'] != 'own':
        return      # a call that forwards nothing has to succeed by itself: it was written for the old callee
    if c0.get('dress') == 'partial-route' or c0.get('as_partial') or c0.get('via_local'):
        return      # (the call was written for the routing partial object / builds a partial / goes through a local)
    alt = g['alt_callee']
    if meta['route'] == 'attr':
        g['ns'].sub.fn0 = alt
    else:
        g['callee0'] = alt
    g['callee_objs'] = [alt] + list(g['callee_objs'][1:])
    m2 = copy.deepcopy(meta)
    m2['calls'][0]['pi'] = (('p', PK, None, None), ('q', PK, '1', None), ('r', KO, '2', None))
    target = g['target']
    ctx.count('auto.requeried_after_rebinding')
    w2 = dict(w, rebound='callee of the first call rebound to def alt_callee(p, q=1, *, r=2) after the first retrieval')
    try:
        S2 = sigtools.signature(target)
    except Exception as e:
        for p in want:
            if p in ('C05', 'C06'):
                ctx.violation(p, 'AutoBoundary', 'retrieval-raises-%s' % type(e).__name__,
                              'sigtools.signature raised %s after the callee was rebound: %s' % (type(e).__name__, e),
                              dict(w2, exception=repr(e)), rp)
        return
    plain = signatures.signature(target)
    if 'C06' in want:
        try:
            alts = expected_alternatives(m2, g)
        except CalleeRetrievalRaises:
            return              # reported by the main comparison
        if not any(matches(S2, a, m2, g, plain) for tag, a in alts):
            ctx.violation('C06', 'AutoBoundary', 'stale-after-rebinding@' + meta['route'],
                          'after the callee was rebound, the discovered signature is not the declaration of the forwarding to the new callee',
                          dict(w2, discovered=show(S2),
                               declared=[(tag, show(a) if not isinstance(a, str) else 'plain: ' + show(plain)) for tag, a in alts][:4]), rp)
    if 'C05' in want and sig_key(S2) != sig_key(plain):
        execute_soundness(ctx, m2, g, S2, w2, rp)


def classify_nonname(ctx, meta, g, S, plain):
    """If treating every non-Name binding construct as invisible explains the
    discovered signature, return the finding key of that construct."""
    import copy
    labels = [t['label'] for t in meta['taints'] if t['cls'] == 'nonname']
    if not labels:
        return None
    m2 = copy.deepcopy(meta)
    m2['taints'] = [t for t in m2['taints'] if t['cls'] != 'nonname']
    try:
        alts = expected_alternatives(m2, g)
    except CalleeRetrievalRaises:
        return None
    if any(matches(S, a, m2, g, plain) for tag, a in alts):
        return 'nonname-binding-' + labels[0]
    return None


def signatures_plain(obj):
    from sigtools import signatures
    return signatures.signature(obj)


def execute_soundness(ctx, meta, g, S, w, rp):
    """Really call the wrapper on every accepted non-colliding shape."""
    if meta['route'] == 'inner_partial':
        ctx.count('C05.not_executed_builds_partial_only')
        return
    if any(c.get('dress') == 'partial-route' for c in meta['calls']):
        # the callee is a partial object over a routing function that hands everything on to a callable it receives
        # as an argument: whatever discovery reports for it stops at the router's own (*a, **k) -- what the final
        # target accepts is beyond any signature of the wrapper (judged against the declaration by C06 only)
        anon = lambda sig_: [((q[0] if q[1] not in (VA, VK) else '*'),) + tuple(q[1:]) for q in bparams(sig_)]
        if len(meta['calls']) > 1 or anon(S) == anon(signatures_plain(g['target'])):
            ctx.count('C05.not_executed_callee_routes_on')
            return
        # (a single routed call whose discovered signature says MORE than the plain one, star names aside, is executed)
    if any(t['cls'] != 'harmless' for t in meta['taints']) or any(c.get('incall_kw') for c in meta['calls']):
        ctx.count('C05.not_executed_tainted')
        return
    fv = foreign_for_program(meta)
    if fv is None:
        ctx.count('C05.not_executed_no_fixed_foreign_value')
        return
    g['OTHER_A'], g['OTHER_K'] = fv
    target = g['target']
    res = bparams(S)
    ob = sigs.shape_key(meta['po'])
    if meta.get('modifier'):
        ob = tuple(bparams(own_signature(meta, g)))
    ins = [ob] + [sigs.shape_key(c['pi']) for c in meta['calls']]
    if meta['route'] == 'param_partial':
        ins[0] = (('func', PK, None, None),) + tuple(ob)
    if meta['route'] == 'default_param':
        ins[0] = tuple(ob) + (('func', KO, '1', None),)
    sp = oracle.space_for(ins + [res])
    # names the wrapper passes itself -- by keyword, or among its n leading
    # positionals: no signature can say '**kwargs except x' (C03: "call shapes
    # disjoint from names"); another callee may make such a name keyword-passable
    # in the merged result, so non-collision alone does not exclude it
    explicit = set()
    for c in meta['calls']:
        explicit.update(c['names'])
        explicit.update([p[0] for p in c['pi'] if p[1] in (PO, PK)][:c['n']])
    nc = sp.noncolliding(res, ins) & sp.without_keywords(explicit)
    acc = sp.acc(res)
    try:
        real = sp.acc_callable(target)
    except Exception as e:
        ctx.count('C05.execution_raised_other')
        return
    ctx.count('C05.executed')
    ctx.count('C05.calls_executed', sp.nshapes)
    bad = acc & nc & ~real
    if bad and not (bad & sp.pure) and merged_calls_role_inconsistent(meta, g):
        ctx.violation('C05', 'AutoBoundary', MIXED_MECH,
                      'several forwarding calls whose signatures use one name in different roles are merged: a mixed positional/keyword call accepted by the result fails in one callee',
                      dict(w, discovered=show(S), shape=sp.first(bad)), rp)
    elif bad:
        ctx.violation('C05', 'AutoBoundary', 'discovered-signature-unsound@' + meta['route'],
                      'a non-colliding call accepted by the discovered signature raises an argument-binding TypeError when executed',
                      dict(w, discovered=show(S), shape=sp.first(bad)), rp)


MIXED_MECH = 'merged-forwarding-calls-role-inconsistent-mixed-call'


def merged_calls_role_inconsistent(meta, g):
    """Mechanism predicate: >= 2 forwarding calls contribute, and the signatures
    declared for the individual calls do not use every shared name in the same
    kind at the same positional index (merge then only guarantees pure calls, C01)."""
    import sigtools
    from sigtools import signatures
    osig = own_signature(meta, g)
    per_call = []
    for ci, (c, callee) in enumerate(zip(meta['calls'], g['callee_objs'])):
        use_va = c['star'] == 'own'
        use_kw = c['dstar'] == 'own'
        if not (use_va or use_kw):
            continue
        try:
            per_call.append(bparams(signatures.forwards(
                osig, sigtools.signature(callee), c['n'] + (1 if c.get('dress') == 'partial-route' else 0), *c['names'],
                use_varargs=use_va, use_varkwargs=use_kw,
                hide_args=c['star'] in ('other', 'double'), hide_kwargs=c['dstar'] in ('other', 'double'),
                partial=(meta['route'] == 'inner_partial' or bool(c.get('as_partial'))))))
        except ValueError:
            return False
    return len(per_call) >= 2 and not oracle.strictly_role_consistent(per_call)


def run(ctx, want, n_programs, variants=0, label='programs'):
    rnd = ctx.rng('auto-' + '-'.join(want))
    for _ in range(n_programs // ctx.nshards):
        if ctx.out_of_time(label):
            break
        check_program(ctx, rnd.getrandbits(48), want=want, variants=variants)


def run_targeted_taints(ctx, want):
    """Every taint construct x position (before / after) x scope of the call,
    so that each row of the taint tables is exercised in every run."""
    rnd = ctx.rng('auto-taints')
    idx = 0
    for kind, table in (('va', TAINTS_VA), ('kw', TAINTS_KW)):
        for label, tmpl, cls in table:
            for pos in (0, 1):
                for ctxname in ('expr', 'nested', 'listcomp'):
                    idx += 1
                    if not ctx.mine(idx):
                        continue
                    for _ in range(3):
                        seed = rnd.getrandbits(48)
                        force = dict(route=rnd.choice(('global', 'closure', 'selfmethod')), ncalls=1, ctx=ctxname,
                                     taints=[dict(kind=kind, label=label, cls=cls, pos=pos)])
                        # the forced taint needs the star parameter to exist: retry seeds until it does
                        src, meta = gen_program(seed, force)
                        if not (meta['ova'] if kind == 'va' else meta['ovk']):
                            continue
                        if (meta['calls'][0]['star'] if kind == 'va' else meta['calls'][0]['dstar']) != 'own':
                            continue
                        ctx.count('auto.targeted_taint_programs')
                        check_program(ctx, seed, want=want, force=force)
                        break


def replay(ctx, rec, want):
    check_program(ctx, rec['case_seed'], want=want, force=rec.get('force'), variants=3 if 'C06' in want else 0)

"""C08 -- provenance monitors: structural invariant of every returned `sources`
map, and relational rules for merge / embed / mask / partial retrieval."""
import functools
import inspect
import types

from . import sigs, oracle, monitor
from .sigs import PO, PK, VA, KO, VK
from .sigutil import bparams, show, sources_view, fname
from .monitor import Monitor
from .mon_alg import replay_alg, full_params, all_signatures, _mask_call_info

DEPTHS = '+depths'
DUP_MECH = 'duplicate-source-through-merged-inputs'
DUP2_MECH = 'duplicate-source-name-in-two-roles-nary-merge'
NARY_DROP_MECH = 'nary-merge-parameter-dropped-and-reintroduced'


def own_names(c, _depth=0):
    """Parameter names the callable's own code declares, or None."""
    if _depth > 4:
        return None
    try:
        if isinstance(c, functools.partial):
            base = own_names(c.func, _depth + 1) or set()
            return set(base) | set(c.keywords or ())
        if isinstance(c, (types.MethodType,)):
            return own_names(c.__func__, _depth + 1)
        func = getattr(c, 'func', None)
        if func is not None and type(c).__name__ == '_PokTranslator':
            return own_names(func, _depth + 1)
        code = getattr(c, '__code__', None)
        if isinstance(code, types.CodeType):
            n = code.co_argcount + code.co_kwonlyargcount
            if code.co_flags & inspect.CO_VARARGS:
                n += 1
            if code.co_flags & inspect.CO_VARKEYWORDS:
                n += 1
            return set(code.co_varnames[:n])
        if isinstance(c, type):
            out = set()
            for attr in ('__init__', '__new__'):
                m = getattr(c, attr, None)
                names = own_names(m, _depth + 1) if m is not None and hasattr(m, '__code__') else None
                if names:
                    out |= names
            return out or None
        call = getattr(type(c), '__call__', None)
        if call is not None and hasattr(call, '__code__'):
            return own_names(call, _depth + 1)
    except Exception:
        return None
    return None


def declared_names(c):
    """Own-code names united with the names plain retrieval reports (plain
    retrieval follows __wrapped__/__signature__, and that is what sigtools
    credits a functools.wraps wrapper with)."""
    names = set()
    found = False
    own = own_names(c)
    if own is not None:
        names |= own
        found = True
    try:
        plain = monitor.original('signature')(c)
        names |= set(plain.parameters)
        found = True
    except Exception:
        pass
    try:
        w = c
        for _ in range(6):
            w = w.__wrapped__
            o = own_names(w)
            if o:
                names |= o
    except Exception:
        pass
    return names if found else None


def well_formed_sources(sig):
    src = getattr(sig, 'sources', None)
    if not isinstance(src, dict) or not isinstance(src.get(DEPTHS), dict):
        return False
    if set(src) - {DEPTHS} != set(sig.parameters):
        return False
    # complete: every parameter credited to someone who has a depth (the result of an operation on a plain
    # inspect.Signature -- upgraded on the fly, nobody to credit -- is itself no input with provenance)
    try:
        return bool(src[DEPTHS]) and min(src[DEPTHS].values()) == 0 and \
            all(src[k] and all(f in src[DEPTHS] for f in src[k]) for k in sig.parameters)
    except TypeError:
        return False


def handed_over(obj, value):
    # inspect itself (which honours __signature__ anywhere along the __wrapped__ / __call__ chain)
    # already answers with an upgraded signature: plain retrieval returns that object untouched
    try:
        from sigtools import _util, _signatures
        with monitor.suppressed():
            raw = _util.funcsigs.signature(obj)
        if isinstance(raw, _signatures.UpgradedSignature):
            return True
    except Exception:
        pass
    seen = 0
    todo = [obj]
    while todo and seen < 12:
        o = todo.pop()
        seen += 1
        try:
            d = object.__getattribute__(o, '__dict__')
        except Exception:
            d = {}
        if not isinstance(d, dict):
            d = {}
        if d.get('__signature__') is value:
            return True
        for nxt in (d.get('__wrapped__'), getattr(o, '__func__', None)):
            if nxt is not None:
                todo.append(nxt)
        try:
            call = type(o).__dict__.get('__call__') if not isinstance(o, type) else None
        except Exception:
            call = None
        if call is not None and hasattr(call, '__dict__'):
            todo.append(call)
    return False


class Provenance(Monitor):
    points = ('merge', 'embed', 'mask', '_mask', 'forwards', 'signature', 'forged_signature')
    prop = 'C08'

    def __init__(self, ctx):
        Monitor.__init__(self, ctx)
        self.dup_known = set()      # (id(callable), name) pairs attributed to finding 5
        self.dup2_known = set()
        self.keepalive = []
        self._decl_cache = {}

    # ------------------------------------------------------------ helpers
    def declares(self, c, name):
        key = id(c)
        ent = self._decl_cache.get(key)
        if ent is None or ent[0] is not c:
            if len(self._decl_cache) > 20000:
                self._decl_cache.clear()
            ent = self._decl_cache[key] = (c, declared_names(c))
        names = ent[1]
        if names is None or name not in names:
            # a negative answer is never taken from the cache: it may have been computed while
            # discovery had temporarily removed __wrapped__/__signature__ from this very object
            # (plain retrieval then reports the wrapper's own def only)
            names = declared_names(c)
            self._decl_cache[key] = (c, names)
        if names is None:
            return None
        return name in names

    def post(self, point, args, kwargs, ok, value, tok):
        ctx = self.ctx
        if not ok:
            return
        from sigtools import _signatures
        if not isinstance(value, _signatures.UpgradedSignature):
            return
        sig_inputs = [a for a in args if isinstance(a, inspect.Signature)]
        if point in ('merge', 'embed', 'mask', '_mask', 'forwards'):
            if not sig_inputs or not all(well_formed_sources(s) for s in sig_inputs
                                         if isinstance(s, _signatures.UpgradedSignature)) \
                    or not all(isinstance(s, _signatures.UpgradedSignature) for s in sig_inputs):
                ctx.count('C08.skipped_inputs_without_provenance')
                return
            if point == '_mask' and args[7] is None:
                return  # the public mask() call is monitored one level up
            kw = {k: v for k, v in kwargs.items() if not k.startswith('_')}
            rp = replay_alg(point if point != '_mask' else 'partial', [full_params(s) for s in sig_inputs],
                            rest=[a for a in args if isinstance(a, (int, str))], **kw)
            w = {'op': point, 'inputs': [show(s) for s in sig_inputs],
                 'input_sources': [sources_view(s) for s in sig_inputs],
                 'rest': [a for a in args if isinstance(a, (int, str))], 'kwargs': kw,
                 'result': show(value), 'result_sources': sources_view(value)}
        else:
            subject = args[0] if args else None
            rp = dict(workload='retrieval', op=point, subject=fname(subject))
            w = {'op': point, 'subject': fname(subject), 'result': show(value),
                 'result_sources': sources_view(value)}
        translator = None
        if point in ('signature', 'forged_signature') and args and type(args[0]).__name__ == '_PokTranslator':
            translator = args[0]
        if translator is None and point == 'signature' and args and handed_over(args[0], value):
            # the object (or something in its __wrapped__ chain) carries this very signature object as
            # __signature__: plain retrieval hands it back as it is -- its provenance is whatever the one
            # who stored it wrote (the repository's tests store hand-made ones), not sigtools' doing
            ctx.count('C08.signature_attribute_handed_back')
            return
        ctx.evaluated()
        ctx.count('C08.%s' % point)
        self.structural(point, value, sig_inputs, w, rp, subject=args[0] if args else None)
        if point == 'merge' and all_signatures(args):
            self.rel_merge(args, value, w, rp)
        elif point == 'embed' and all_signatures(args):
            self.rel_embed(args, kwargs, value, w, rp)
        elif point == 'mask':
            self.rel_mask(args, kwargs, value, w, rp)
        elif point == 'forwards' and len(sig_inputs) == 2:
            self.rel_forwards(sig_inputs, value, w, rp)
        elif point == '_mask':
            self.rel_partial(args, value, w, rp)
        elif point == 'signature' and translator is None:
            self.rel_plain(args, value, w, rp)
        if translator is not None:
            self.rel_modifier(translator, point, value, w, rp)

    # --------------------------------------------------------- structural
    def structural(self, point, value, inputs, w, rp, subject=None):
        ctx = self.ctx
        src = value.sources
        V = lambda mech, what: ctx.violation('C08', 'Provenance', mech, what, w, rp)
        if not isinstance(src, dict):
            V('sources-not-a-dict', 'sources is %s' % type(src).__name__)
            return
        depths = src.get(DEPTHS)
        if not isinstance(depths, dict):
            V('no-depths', "sources has no '+depths' map (%s)" % point)
            return
        pnames = list(value.parameters)
        keys = set(src) - {DEPTHS}
        missing = [n for n in pnames if n not in keys]
        extra = sorted(keys - set(pnames))
        if missing:
            V('missing-entry-%s' % point, 'parameter(s) %s of the result of %s have no sources entry' % (missing, point))
        if extra:
            V('stale-entry-%s' % point, 'sources of the result of %s names %s, not a parameter of the signature' % (point, extra))
        nontrivial = False
        for name in pnames:
            lst = src.get(name)
            if lst is None:
                continue
            if not isinstance(lst, list) or not lst:
                V('empty-entry-%s' % point, 'sources[%r] of the result of %s is empty' % (name, point))
                continue
            if len(lst) > 1:
                nontrivial = True
            ids = [id(c) for c in lst]
            if len(set(ids)) != len(ids):
                dup = next(c for c in lst if ids.count(id(c)) > 1)
                if self.dup_is_known(dup, name, point, inputs):
                    ctx.violation('C08', 'Provenance', DUP_MECH,
                                  'a callable that reaches the result through two merged inputs is listed twice for %r' % name, w, rp)
                elif self.dup_two_roles(dup, name, point, inputs):
                    ctx.violation('C08', 'Provenance', DUP2_MECH,
                                  'n-ary merge of inputs using %r in two different roles lists a callable twice' % name, w, rp)
                else:
                    V('duplicate-entry-%s' % point, 'sources[%r] of the result of %s lists %s twice' % (name, point, fname(dup)))
            for c in lst:
                try:
                    has_depth = c in depths
                except TypeError:
                    has_depth = any(c is d for d in depths)
                if not has_depth:
                    V('no-depth-%s' % point, 'sources[%r] lists %s, which has no depth' % (name, fname(c)))
                d = self.declares(c, name)
                if d is None:
                    ctx.count('C08.declares_unchecked')
                elif not d:
                    V('undeclared-%s' % point, 'sources[%r] lists %s, which declares no parameter of that name' % (name, fname(c)))
                else:
                    ctx.count('C08.declares_checked')
        if depths:
            vals = list(depths.values())
            if not all(isinstance(d, int) and not isinstance(d, bool) and d >= 0 for d in vals):
                V('bad-depth-%s' % point, 'depths are not all non-negative ints: %r' % sorted(map(repr, vals)))
            elif 0 not in vals:
                V('no-depth-zero-%s' % point, 'no callable at depth 0 in the result of %s' % point)
            if len(depths) > 1:
                nontrivial = True
        elif pnames:
            V('empty-depths-%s' % point, "'+depths' is empty although the signature has parameters")
        # retrieval of a functools.partial object: it is the outermost callable of every chain ("depths start at 0 at
        # the outermost callable")
        if point in ('signature', 'forged_signature') and isinstance(subject, functools.partial):
            ctx.count('C08.partial_outermost_checked')
            try:
                d0 = depths.get(subject)
            except TypeError:
                d0 = 0
            if d0 != 0:
                V('partial-object-not-at-depth-0', 'the partial object asked about is %s in the result of %s' % (
                    'missing from the depths' if d0 is None else 'at depth %r' % d0, point))
        # discovery on a plain function: the function asked about is the outermost callable of what comes back (unless the
        # very object stored in its __signature__ was handed back)
        if point == 'forged_signature' and isinstance(subject, types.FunctionType):
            stored = getattr(subject, '__dict__', {}).get('__signature__')
            wrapped = getattr(subject, '__dict__', {}).get('__wrapped__')
            # (a stored signature that update_wrapper copied over from the wrapped function describes THAT function:
            # for a wrapper with star parameters of its own it is not "handed back", it is mistaken for the wrapper's)
            copied = stored is not None and wrapped is not None and \
                getattr(wrapped, '__dict__', {}).get('__signature__') is stored and bool(subject.__code__.co_flags & 0x0c)
            # (... nor when inspect itself -- patched by the repository's own tests -- answers with a ready-made upgraded
            # signature: then nothing was discovered either)
            # (judged for functools.wraps-decorated functions without a forger of their own: what a user-supplied
            # forger returns is the user's business)
            wraps_made = wrapped is not None and not hasattr(subject, '_sigtools__forger')
            if wraps_made and (copied or (value is not stored and not handed_over(subject, value))):
                ctx.count('C08.function_outermost_checked')
                if not any(c is subject and d == 0 for c, d in depths.items()):
                    V('retrieved-function-not-at-depth-0', 'the function asked about is not at depth 0 of the signature discovered for it')
        if nontrivial:
            ctx.nontrivial((point, bparams(value), tuple(sorted(
                (k, len(v)) for k, v in src.items() if k != DEPTHS)), tuple(sorted(depths.values()))))
            ctx.sample('provenance-' + point, lambda: w, limit=2)

    def dup_is_known(self, dup, name, point, inputs):
        if point == 'merge':
            n_inputs = sum(1 for s in inputs
                           if any(c is dup for c in s.sources.get(name, ())))
            if n_inputs >= 2:
                self.dup_known.add((id(dup), name))
                self.keepalive.append(dup)
                return True
        # inherited from an input, or created by a merge nested in this call
        # (an input that already lists the callable twice for this name hands the duplicate on: this operation did
        # not create it -- whether or not the merge that did was observed; merges of inputs with an incomplete
        # provenance map are not judged and so not recorded)
        for s in inputs:
            lst = getattr(s, 'sources', {}).get(name, ())
            if sum(1 for c in lst if c is dup) > 1:
                self.dup_known.add((id(dup), name))
                self.keepalive.append(dup)
                return True
        return (id(dup), name) in self.dup_known

    def dropped_in_fold(self, args, name):
        """Mechanism predicate shared with the C10 finding of the same name: `name` is a parameter of an
        earlier input but absent from an intermediate result of the left fold merge(merge(s0, s1), ...)."""
        if len(args) < 3:
            return False
        orig = monitor.original('merge')
        seen = name in args[0].parameters
        acc = args[0]
        for s in args[1:-1]:
            try:
                acc = orig(acc, s)
            except ValueError:
                return False
            seen = seen or name in s.parameters
            if seen and name not in acc.parameters:
                return True
        return False

    def dup_two_roles(self, dup, name, point, inputs):
        """The fold of an n-ary (n >= 3) merge holds `name` in two buckets at
        once because the inputs use it in two different roles (e.g. positional
        in one, keyword-only in another); both buckets later contribute the
        accumulated list again."""
        if (id(dup), name) in self.dup2_known:
            return True
        if point != 'merge' or len(inputs) < 3:
            return False
        roles = set()
        for s in inputs:
            r = oracle.loose_roles(bparams(s)).get(name)
            if r is not None:
                roles.add(r)
        if len(roles) >= 2:
            self.dup2_known.add((id(dup), name))
            self.keepalive.append(dup)
            return True
        return False

    # --------------------------------------------------------- relational
    def rel_merge(self, args, value, w, rp):
        ctx = self.ctx
        ctx.count('C08.rel_merge')
        want = {}
        conflict = later_smaller = False
        for s in args:
            for c, d in s.sources.get(DEPTHS, {}).items():
                if id(c) in want and d != want[id(c)][1]:
                    conflict = True
                    if d < want[id(c)][1]:
                        later_smaller = True
                if id(c) not in want or d < want[id(c)][1]:
                    want[id(c)] = (c, d)
        if conflict:
            ctx.count('C08.merge_callable_reached_at_two_depths')
        if later_smaller:
            ctx.count('C08.merge_smaller_depth_in_later_input')
        got = {id(c): d for c, d in value.sources[DEPTHS].items()}
        if got != {k: d for k, (c, d) in want.items()}:
            ctx.violation('C08', 'Provenance', 'merge-depths',
                          'depths of a merge result are not the minimum over the inputs', w, rp)
        ins = [bparams(s) for s in args]
        if oracle.name_aligned(ins):
            ctx.count('C08.rel_merge_aligned')
            res_roles = oracle.strict_roles(bparams(value))
            in_roles = [oracle.strict_roles(p) for p in ins]
            for p in value.parameters.values():
                if p.kind in (p.VAR_POSITIONAL, p.VAR_KEYWORD):
                    continue
                # an input *receives* the argument through its own parameter of that
                # name iff that parameter can be fed the way the result passes it
                kr, ir = res_roles[p.name]
                expect = set()
                union = set()
                for s, roles in zip(args, in_roles):
                    if p.name not in roles:
                        continue
                    ids = {id(c) for c in s.sources.get(p.name, ())}
                    union |= ids
                    ki, ii = roles[p.name]
                    if kr in (PO, PK) and ki in (PO, PK) and ii == ir:
                        expect |= ids
                    elif kr == KO and ki in (PK, KO):
                        expect |= ids
                have = {id(c) for c in value.sources.get(p.name, ())}
                if not (expect <= have <= union) and self.dropped_in_fold(args, p.name):
                    ctx.violation('C08', 'Provenance', NARY_DROP_MECH,
                                  'n-ary merge: %r was dropped at an intermediate step of the fold and re-introduced by a later input, its sources are those of the later input alone' % p.name, w, rp)
                elif not (expect <= have <= union):
                    ctx.violation('C08', 'Provenance', 'merge-sources-not-union',
                                  'sources of %r in a merge of consistently named inputs are not exactly the input callables whose parameter of that name receives it' % p.name,
                                  w, rp)
                    break

    def rel_embed(self, args, kwargs, value, w, rp):
        ctx = self.ctx
        ctx.count('C08.rel_embed')
        want = {}
        for i, s in enumerate(args):
            for c, d in s.sources.get(DEPTHS, {}).items():
                if id(c) not in want or d + i < want[id(c)]:
                    want[id(c)] = d + i
        got = {id(c): d for c, d in value.sources[DEPTHS].items()}
        if got != want:
            ctx.violation('C08', 'Provenance', 'embed-depths',
                          'depths of an embed result are not min over inputs of (depth + position in the chain)', w, rp)
        for p in value.parameters.values():
            if p.kind in (p.VAR_POSITIONAL, p.VAR_KEYWORD):
                continue
            holders = [s for s in args if p.name in s.parameters]
            if len(holders) == 1:
                expect = {id(c) for c in holders[0].sources.get(p.name, ())}
                have = {id(c) for c in value.sources.get(p.name, ())}
                if have != expect:
                    ctx.violation('C08', 'Provenance', 'embed-sources-not-input',
                                  'sources of %r in an embed result differ from those of the only input declaring it' % p.name,
                                  w, rp)
                    break

    def rel_forwards(self, sigs_in, value, w, rp):
        """forwards(outer, inner, ...): whatever is bound or hidden on the way, every callable behind the inner
        signature ends up one level below where it was, the outer's stay where they are (smallest depth wins)."""
        ctx = self.ctx
        ctx.count('C08.rel_forwards')
        want = {}
        for i, s in enumerate(sigs_in):
            for c, d in s.sources.get(DEPTHS, {}).items():
                if id(c) not in want or d + i < want[id(c)]:
                    want[id(c)] = d + i
        got = {id(c): d for c, d in value.sources[DEPTHS].items()}
        if got != want:
            ctx.violation('C08', 'Provenance', 'forwards-depths',
                          'depths of a forwards result are not: outer as they were, inner one level deeper (smallest wins)', w, rp)
            return
        outer, inner = sigs_in
        for p in value.parameters.values():
            if p.kind in (p.VAR_POSITIONAL, p.VAR_KEYWORD) or p.name in outer.parameters or p.name not in inner.parameters:
                continue
            if {id(c) for c in value.sources.get(p.name, ())} != {id(c) for c in inner.sources.get(p.name, ())}:
                ctx.violation('C08', 'Provenance', 'forwards-sources-not-inner',
                              'sources of %r in a forwards result differ from those of the inner signature, the only one declaring it' % p.name, w, rp)
                break

    def rel_mask(self, args, kwargs, value, w, rp):
        ctx = self.ctx
        ctx.count('C08.rel_mask')
        sig = args[0]
        got = {id(c): d for c, d in value.sources[DEPTHS].items()}
        want = {id(c): d for c, d in sig.sources.get(DEPTHS, {}).items()}
        if got != want:
            ctx.violation('C08', 'Provenance', 'mask-depths', 'mask changed the depths map', w, rp)
        for p in value.parameters.values():
            if p.name in sig.parameters:
                a = [id(c) for c in sig.sources.get(p.name, ())]
                b = [id(c) for c in value.sources.get(p.name, ())]
                if a != b:
                    ctx.violation('C08', 'Provenance', 'mask-sources-changed',
                                  'mask changed the sources of the surviving parameter %r' % p.name, w, rp)
                    break

    def rel_partial(self, args, value, w, rp):
        ctx = self.ctx
        sig, pobj, named = args[0], args[7], args[6]
        ctx.count('C08.rel_partial')
        depths = value.sources[DEPTHS]
        got = {id(c): d for c, d in depths.items()}
        want = {id(c): d + 1 for c, d in sig.sources.get(DEPTHS, {}).items()}
        want[id(pobj)] = 0
        if got != want:
            ctx.violation('C08', 'Provenance', 'partial-depths',
                          'partial retrieval: depths are not (input depths + 1) with the partial object at 0', w, rp)
        # a parameter of the function that is still there keeps whom it was credited to (the partial object is
        # credited with what it adds, nothing else)
        for name, q in value.parameters.items():
            if name in sig.parameters and name in sig.sources and \
                    (name not in (named or ()) or q.kind == sig.parameters[name].kind) and \
                    [id(c) for c in value.sources.get(name, ())] != [id(c) for c in sig.sources.get(name, ())]:
                ctx.violation('C08', 'Provenance', 'partial-surviving-parameter-recredited',
                              'parameter %r survives the partial binding but is credited to other callables than before' % name, w, rp)
                break
        for name in named or ():
            if name in value.parameters and name not in sig.parameters:
                lst = value.sources.get(name, ())
                if [id(c) for c in lst] != [id(pobj)]:
                    ctx.violation('C08', 'Provenance', 'partial-absorbed-keyword-source',
                                  'keyword %r absorbed by **kwargs is not sourced to the partial object' % name, w, rp)

    def rel_modifier(self, t, point, value, w, rp):
        """'Wrapper objects created by modifiers replace the function they wrap consistently in
        both maps': in what retrieval reports for the wrapper, the wrapped function appears in no
        list and has no depth; the wrapper is at depth 0 and is credited with every parameter of
        its own def."""
        ctx = self.ctx
        ctx.count('C08.rel_modifier')
        raw = getattr(t, 'func', None)
        src = value.sources
        depths = src.get(DEPTHS, {})
        in_lists = any(any(c is raw for c in v) for k, v in src.items() if k != DEPTHS)
        in_depths = any(c is raw for c in depths)
        if in_lists or in_depths:
            ctx.violation('C08', 'Provenance', 'modifier-wrapped-function-still-listed',
                          'the function wrapped by a modifiers wrapper appears in %s of the wrapper\'s signature' % (
                              'sources and depths' if in_lists and in_depths else ('sources' if in_lists else 'depths')), w, rp)
        d0 = [d for c, d in depths.items() if c is t]
        if d0 != [0]:
            ctx.violation('C08', 'Provenance', 'modifier-wrapper-not-at-depth-0',
                          'the modifiers wrapper is not at depth 0 in its own signature (%r)' % (d0,), w, rp)
        own = own_names(t) or set()
        missing = [n for n in value.parameters if n in own and not any(c is t for c in src.get(n, ()))]
        if missing and point == 'signature':
            ctx.violation('C08', 'Provenance', 'modifier-wrapper-not-credited',
                          'parameters %s of the wrapped def are not sourced to the modifiers wrapper' % missing, w, rp)

    def rel_plain(self, args, value, w, rp):
        ctx = self.ctx
        obj = args[0]
        if isinstance(obj, functools.partial):
            return
        ctx.count('C08.rel_plain')
        depths = value.sources[DEPTHS]
        ok = len(depths) == 1 and any(c is obj for c in depths) and all(
            len(v) == 1 and v[0] is obj for k, v in value.sources.items() if k != DEPTHS)
        if not ok:
            ctx.violation('C08', 'Provenance', 'plain-retrieval-sources',
                          'plain retrieval does not source every parameter to the retrieved object at depth 0', w, rp)

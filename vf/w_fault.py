"""W-FAULT (C16, retrieval half): failpoints at every call that crosses from
sigtools into outside code, enumerated completely per scenario.

A *crossing* is
 (a) a PY_START of code outside sigtools whose calling frame is sigtools code
     (explicit calls -- inspect machinery, source loading, parsing, user forgers
     -- and implicit ones: user __get__, __getattr__, properties), or
 (b) a CALL from sigtools code to the builtins getattr / hasattr / eval, which
     have no Python frame of their own (attribute getters, annotation evaluation).
setattr/delattr (the restoring calls) and container primitives are deliberately
not failpoints.  Raising from the sys.monitoring callback propagates from the
call site exactly like a failure of the callee.
"""
import functools
import inspect
import os
import sys
import types

from . import env, sigs

mon = sys.monitoring
TOOL_ID = 4


class InjectedFault(Exception):
    pass


EXC_CLASSES = [InjectedFault, AttributeError, ValueError, TypeError, OSError, KeyError, RecursionError]
EXC_BY_NAME = {c.__name__: c for c in EXC_CLASSES}
_BUILTIN_POINTS = (getattr, hasattr, eval)
QUICK_BIG_CLASSES = (InjectedFault, AttributeError, TypeError)


class Injector(object):
    def __init__(self):
        self.active = False
        self.count = 0
        self.target = None
        self.exc = InjectedFault
        self.sites = []
        self.fired = None
        self.installed = False
        self._in_sig = {}
        self.skip = set()
        self.learning = False
        self.seen_other = set()
        self.seen_crossing = set()

    def learn_begin(self):
        self.skip = set()
        self.seen_other = set()
        self.seen_crossing = set()
        self.learning = True
        if self.installed:
            mon.restart_events()

    def learn_end(self):
        self.learning = False
        self.skip = self.seen_other - self.seen_crossing

    def in_sig(self, code):
        r = self._in_sig.get(code)
        if r is None:
            r = self._in_sig[code] = env.in_sigtools(code.co_filename)
        return r

    def install(self):
        if self.installed:
            return
        mon.use_tool_id(TOOL_ID, 'vf-failpoints')
        mon.register_callback(TOOL_ID, mon.events.PY_START, self.on_start)
        mon.register_callback(TOOL_ID, mon.events.CALL, self.on_call)
        mon.set_events(TOOL_ID, mon.events.PY_START | mon.events.CALL)
        self.installed = True

    def uninstall(self):
        if self.installed:
            mon.set_events(TOOL_ID, 0)
            mon.register_callback(TOOL_ID, mon.events.PY_START, None)
            mon.register_callback(TOOL_ID, mon.events.CALL, None)
            mon.free_tool_id(TOOL_ID)
            self.installed = False

    def crossing(self, site):
        self.count += 1
        if self.target is None:
            self.sites.append(site)
        elif self.count == self.target:
            self.fired = site
            self.active = False
            raise self.exc('injected at crossing %d: %s' % (self.count, site))

    def on_start(self, code, offset):
        if not self.active:
            return
        if code in self.skip:
            # never a crossing callee in the numbering run of this scenario: runs are
            # deterministic up to the injection point, so it cannot become one before it
            return mon.DISABLE
        if self.in_sig(code):
            return
        if code.co_filename.startswith(env.VERIF_DIR):
            return          # the pass-through wrappers of vf.monitor are transparent
        try:
            caller = sys._getframe(1).f_back
        except ValueError:
            return
        while caller is not None and caller.f_code.co_filename.startswith(env.VERIF_DIR):
            caller = caller.f_back
        if caller is None or not self.in_sig(caller.f_code):
            if self.learning:
                self.seen_other.add(code)
            return
        if self.learning:
            self.seen_crossing.add(code)
        self.crossing('%s:%d -> %s (%s)' % (
            os.path.basename(caller.f_code.co_filename), caller.f_lineno,
            code.co_qualname, os.path.basename(code.co_filename)))

    def on_call(self, code, offset, callable_, arg0):
        if not self.in_sig(code):
            return mon.DISABLE
        if not self.active:
            return
        if callable_ is getattr or callable_ is hasattr or callable_ is eval:
            try:
                line = sys._getframe(1).f_lineno
            except ValueError:
                line = 0
            self.crossing('%s:%d -> builtin %s' % (
                os.path.basename(code.co_filename), line, callable_.__name__))

    # -- runs
    def passive(self, op):
        self.count = 0
        self.target = None
        self.sites = []
        self.active = True
        try:
            try:
                out = ('ret', op())
            except BaseException as e:
                out = ('raise', e)
        finally:
            self.active = False
        return out, list(self.sites)

    def inject(self, op, index, exc):
        self.count = 0
        self.target = index
        self.exc = exc
        self.fired = None
        self.active = True
        try:
            try:
                out = ('ret', op())
            except BaseException as e:
                out = ('raise', e)
        finally:
            self.active = False
        return out, self.fired


INJ = Injector()


def failed_retrieval(op, rnd):
    """Run `op` once passively to number its crossings, then once more with a seeded crossing
    raising a seeded exception class; both outcomes are discarded.  For workloads that want 'a
    retrieval failed earlier' as part of the history of an object.  Returns a short description."""
    INJ.install()
    try:
        out, sites = INJ.passive(op)
        out = None
        if not sites:
            return 'no crossing'
        k = rnd.randint(1, len(sites))
        exc = rnd.choice(EXC_CLASSES)
        out, fired = INJ.inject(op, k, exc)
        kind = out[0]
        out = None
        return 'crossing %d of %d raised %s -> retrieval %s' % (k, len(sites), exc.__name__,
                                                                 'raised' if kind == 'raise' else 'returned')
    finally:
        INJ.uninstall()     # the events are process-wide: leave nothing switched on for the caller


# ------------------------------------------------------------------ snapshot

_SLOT_ATTRS = ('__self__', 'func', 'posoarg_names', 'kwoarg_names', 'kwopos', '__signature__')


def _own_attrs(o):
    """Attribute names and value identities stored on `o` itself, read without
    triggering descriptors of the class (as_forged would compute!)."""
    out = {}
    try:
        d = object.__getattribute__(o, '__dict__')
    except Exception:
        d = None
    if isinstance(d, dict):
        for k, v in d.items():
            out[k] = v
    if type(o).__name__ == '_PokTranslator':
        for k in _SLOT_ATTRS:
            try:
                out.setdefault(k, object.__getattribute__(o, k))
            except AttributeError:
                pass
    return out


def reachable(root, maxdepth=4):
    seen = {}
    order = []
    todo = [(root, 0, 'f')]
    while todo:
        o, d, path = todo.pop()
        if id(o) in seen or o is None or isinstance(o, (int, str, bytes, float, bool, tuple, frozenset, type)):
            continue
        if isinstance(o, types.ModuleType) or isinstance(o, types.CodeType):
            continue
        seen[id(o)] = path
        order.append((path, o))
        if d >= maxdepth:
            continue
        attrs = _own_attrs(o)
        # (sorted: deleting and restoring an attribute moves it to the end of __dict__; the path under
        # which an object reachable twice is recorded must not depend on that)
        for k, v in sorted(attrs.items(), reverse=True):
            if k in ('__globals__', '__builtins__', '__code__', '__doc__', '__module__',
                     '__name__', '__qualname__', '__annotations__', '__defaults__', '__kwdefaults__'):
                continue
            if isinstance(v, (dict,)) and k != '__dict__':
                continue
            todo.append((v, d + 1, '%s.%s' % (path, k)))
        for k in ('__func__', 'func', '__self__'):
            try:
                v = object.__getattribute__(o, k)
            except Exception:
                continue
            if isinstance(v, (types.FunctionType, types.MethodType, functools.partial)) or \
                    (k == '__self__' and hasattr(v, '__dict__') and not isinstance(v, (type, types.ModuleType))):
                todo.append((v, d + 1, '%s.%s' % (path, k)))
    return order


def snapshot(root):
    """Attribute names and value identities of every reachable object; for a signature object
    stored in an attribute (f.__signature__ = ...) also its content -- parameters, provenance
    map, every list in it, depths -- because retrieval reads it and must leave it as it is."""
    from .sigutil import deep_snapshot
    snap = {}
    for path, o in reachable(root):
        attrs = _own_attrs(o)
        items = [(k, id(v)) for k, v in attrs.items()]
        if isinstance(o, functools.partial):
            # what a partial object binds lives in slots, not in its __dict__
            items.append(('bound positionals of the partial object', hash(tuple(id(a) for a in o.args))))
            items.append(('bound keywords of the partial object', hash(tuple(sorted((k, id(v)) for k, v in (o.keywords or {}).items())))))
        for k, v in attrs.items():
            if isinstance(v, inspect.Signature):
                try:
                    items.append((k + ' (content of the stored signature object)', hash(repr(deep_snapshot(v)))))
                except Exception:
                    pass
        snap[path] = (id(o), tuple(sorted(items)))
    return snap


def diff_snapshots(before, after):
    out = []
    for path, (oid, attrs) in before.items():
        if path not in after:
            out.append('%s is no longer reachable' % path)
            continue
        aid, aattrs = after[path]
        if aid != oid:
            out.append('%s is another object' % path)
            continue
        b, a = dict(attrs), dict(aattrs)
        for k in b:
            if k not in a:
                out.append('%s lost attribute %s' % (path, k))
            elif a[k] != b[k]:
                out.append('%s.%s was rebound' % (path, k))
        for k in a:
            if k not in b:
                out.append('%s gained attribute %s' % (path, k))
    for path in after:
        if path not in before:
            out.append('%s became reachable' % path)
    return out


# ----------------------------------------------------------------- scenarios

PRELUDE = '''
import functools, inspect
import sigtools
from sigtools import specifiers, modifiers, wrappers, signatures
def inner(x, y=1, *, z): return (x, y, z)
def inner2(u, *args, v=2, **kwargs): return inner(*args, **kwargs)
def deco(fn):
    @functools.wraps(fn)
    def wrapper(a, *args, **kwargs):
        return fn(1, *args, **kwargs)
    return wrapper
'''

SCENARIOS = [
    ('wraps1', 'f = deco(inner)', 'f', 'sigtools'),
    ('wraps2', 'f = deco(deco(inner))', 'f', 'sigtools'),
    ('wraps3', 'f = deco(deco(deco(inner2)))', 'f', 'sigtools'),
    ('wraps1-noauto', 'f = deco(inner)', 'f', 'noauto'),
    ('wraps-with-signature', '''
f = deco(inner)
f.__signature__ = inspect.signature(inner2)
''', 'f', 'sigtools'),
    ('signature-attr', '''
def f(a, *args, **kwargs): return inner(*args, **kwargs)
f.__signature__ = inspect.signature(f)
''', 'f', 'sigtools'),
    ('plain-forwarding', '''
def f(a, *args, **kwargs): return inner(a, *args, **kwargs)
''', 'f', 'sigtools'),
    ('two-calls', '''
def f(a, *args, **kwargs):
    inner(*args, **kwargs)
    return inner2(a, *args, **kwargs)
''', 'f', 'sigtools'),
    ('forwards-to-function', '''
@specifiers.forwards_to_function(inner, 1)
def f(a, *args, **kwargs): return inner(a, *args, **kwargs)
''', 'f', 'sigtools'),
    ('forwards-to-function-emulate', '''
@specifiers.forwards_to_function(inner, emulate=True)
def f(a, *args, **kwargs): return inner(*args, **kwargs)
''', 'f', 'sigtools'),
    ('forwards-to-function-emulate-inspect', '''
@specifiers.forwards_to_function(inner, emulate=True)
def f(a, *args, **kwargs): return inner(*args, **kwargs)
''', 'f', 'inspect'),
    ('forwards-to-method', '''
class A(object):
    def target(self, x, y): return x
    @specifiers.forwards_to_method('target')
    def m(self, a, *args, **kwargs): return self.target(*args, **kwargs)
obj = A()
f = obj.m
keep = [A, obj]
''', 'f', 'sigtools'),
    ('forwards-to-method-emulate-class-attr', '''
class A(object):
    def target(self, x, y): return x
    @specifiers.forwards_to_method('target', emulate=True)
    def m(self, a, *args, **kwargs): return self.target(*args, **kwargs)
obj = A()
f = obj.m
keep = [A, obj]
''', 'f', 'inspect'),
    ('forwards-to-super', '''
class B(object):
    def m(self, x, y=2): return x
class A(B):
    @specifiers.forwards_to_super()
    def m(self, a, *args, **kwargs): return super().m(*args, **kwargs)
obj = A()
f = obj.m
keep = [A, B, obj]
''', 'f', 'sigtools'),
    ('apply-forwards-to-super', '''
class B(object):
    def m(self, x, y=2): return x
@specifiers.apply_forwards_to_super('m')
class A(B):
    def m(self, a, *args, **kwargs): return super(A, self).m(*args, **kwargs)
obj = A()
f = obj.m
keep = [A, B, obj]
''', 'f', 'sigtools'),
    # __signature__ = as_forged on a CLASS that is inspected itself (the descriptor runs with instance None)
    ('class-with-as-forged-inspect', '''
@specifiers.forwards_to_function(inner)
class K(object):
    __signature__ = specifiers.as_forged
    def __init__(self, a, *args, **kwargs): pass
f = K
''', 'f', 'inspect'),
    ('class-with-as-forged-sigtools', '''
@specifiers.forwards_to_function(inner)
class K(object):
    __signature__ = specifiers.as_forged
    def __init__(self, a, *args, **kwargs): pass
f = K
''', 'f', 'sigtools'),
    # ... and on its callable instances (the documented use)
    ('callable-instance-with-as-forged', '''
class K(object):
    __signature__ = specifiers.as_forged
    @specifiers.forwards_to_method('method')
    def __call__(self, x, *args, **kwargs): return self.method(*args, **kwargs)
    def method(self, a, b, c): return a
f = K()
keep = [K]
''', 'f', 'inspect'),
    # the callee is a functools.lru_cache object (carries __wrapped__, has no signature of its own once stripped)
    ('lru-cached-callee', '''
cached = functools.lru_cache(maxsize=None)(inner)
def f(a, *args, **kwargs): return cached(*args, **kwargs)
f.implementation = cached          # (reachable through f.__dict__: part of what must stay as it was)
''', 'f', 'sigtools'),
    ('lru-cached-object-itself', '''
f = functools.lru_cache(maxsize=None)(inner2)
''', 'f', 'sigtools'),
    # partial objects: what they bind must stay bound
    ('partial-keyword-names-positional-only', '''
def f0(a, /, b=2, **kwargs): return (a, b, kwargs)
f = functools.partial(f0, a=1)
''', 'f', 'sigtools'),
    ('partial-of-forwarder', '''
def fwd(a, *args, **kwargs): return inner(*args, **kwargs)
f = functools.partial(fwd, 0, z=1)
''', 'f', 'sigtools'),
    ('forwarder-to-partial-callee', '''
def f0(a, /, b=2, **kwargs): return (a, b, kwargs)
P = functools.partial(f0, a=1)
def f(x, *args, **kwargs): return P(*args, **kwargs)
f.callee = P
''', 'f', 'sigtools'),
    ('partial-plain-retrieval', '''
f = functools.partial(inner2, 0, v=3, zq=4)
''', 'f', 'noauto'),
    # the raw function gets another __signature__ after a modifier wrapped it
    ('modifier-then-annotate-on-raw', '''
def raw(a, b=2, *args, **kwargs): return inner(*args, **kwargs)
f = modifiers.kwoargs('b')(raw)
modifiers.annotate(a=int)(raw)
''', 'f', 'sigtools'),
    ('modifier-over-decorator-object', '''
@wrappers.decorator
def d(func, *args, opt=False, **kwargs): return func(*args, **kwargs)
@modifiers.kwoargs('y')
@d
def f(x, y=1): return x
''', 'f', 'sigtools'),
    ('kwoargs-function', '''
@modifiers.kwoargs('b')
def f(a, b=2, *args, **kwargs): return inner(*args, **kwargs)
''', 'f', 'sigtools'),
    ('kwoargs-method', '''
class A(object):
    @modifiers.kwoargs('b')
    def m(self, a, b=2, *args, **kwargs): return inner(*args, **kwargs)
obj = A()
f = obj.m
keep = [A, obj]
''', 'f', 'sigtools'),
    ('annotate-kwoargs', '''
@modifiers.annotate(a=int)
@modifiers.kwoargs('b')
def f(a, b=2, *args, **kwargs): return inner(*args, **kwargs)
''', 'f', 'sigtools'),
    ('decorator', '''
@wrappers.decorator
def d(func, *args, opt=False, **kwargs): return func(*args, **kwargs)
@d
def f(x, y): return x
''', 'f', 'sigtools'),
    ('decorator-inspect', '''
@wrappers.decorator
def d(func, *args, opt=False, **kwargs): return func(*args, **kwargs)
@d
def f(x, y): return x
''', 'f', 'inspect'),
    ('decorator-stack', '''
@wrappers.decorator
def d(func, *args, opt=False, **kwargs): return func(*args, **kwargs)
@wrappers.decorator
def e(func, q, *args, **kwargs): return func(*args, **kwargs)
@d
@e
def f(x, y): return x
''', 'f', 'inspect'),
    ('decorator-method', '''
@wrappers.decorator
def d(func, *args, opt=False, **kwargs): return func(*args, **kwargs)
class A(object):
    @d
    def m(self, x): return x
obj = A()
f = obj.m
keep = [A, obj]
''', 'f', 'sigtools'),
    ('wrapper-decorator', '''
@wrappers.wrapper_decorator
def d(func, *args, opt=False, **kwargs): return func(*args, **kwargs)
@d
def f(x, y): return x
''', 'f', 'sigtools'),
    ('wrapper-decorator-inspect', '''
@wrappers.wrapper_decorator(1, 'y')
def d(func, *args, opt=False, **kwargs): return func(0, *args, y=1, **kwargs)
@d
def f(x, y, z=3): return x
''', 'f', 'inspect'),
    ('partial-of-wrapper', '''
def g(fn, a, *args, **kwargs): return fn(*args, **kwargs)
f = functools.partial(g, inner)
''', 'f', 'sigtools'),
    ('partial-of-wraps', '''
f = functools.partial(deco(inner), 1)
''', 'f', 'sigtools'),
    ('callable-instance', '''
class C(object):
    def __call__(self, a, *args, **kwargs): return inner(*args, **kwargs)
f = C()
''', 'f', 'sigtools'),
    ('callable-instance-as-forged', '''
class C(object):
    __signature__ = specifiers.as_forged
    @specifiers.forwards_to_method('method')
    def __call__(self, x, *args, **kwargs): return self.method(*args, **kwargs)
    def method(self, a, b, c): pass
f = C()
''', 'f', 'inspect'),
    ('combination', '''
def c1(arg, *args, **kwargs): return arg
def c2(arg, x, y=2): return arg
f = wrappers.Combination(c1, c2)
''', 'f', 'sigtools'),
    ('user-forger', '''
@specifiers.forger_function
@modifiers.kwoargs('obj')
def static_signature(obj, sig): return sig
@static_signature(signatures.signature(inner))
def f(d, e): pass
''', 'f', 'sigtools'),
    ('class-init', '''
class B(object):
    def __init__(self, x, y=2): pass
class A(B):
    def __init__(self, a, *args, **kwargs): super(A, self).__init__(*args, **kwargs)
f = A
''', 'f', 'sigtools'),
    ('getattr-object', '''
class Dyn(object):
    def __init__(self): self.calls = 0
    def __getattr__(self, name):
        if name.startswith('__') or name.startswith('_sigtools'): raise AttributeError(name)
        return inner
    def __call__(self, a, *args, **kwargs): return inner(*args, **kwargs)
f = Dyn()
''', 'f', 'sigtools'),
    ('wraps-of-method-attr', '''
class A(object):
    def target(self, x, y): return x
    def m(self, a, *args, **kwargs): return self.target(*args, **kwargs)
obj = A()
f = deco(obj.m)
keep = [A, obj]
''', 'f', 'sigtools'),
    ('object-with-python-level-delattr', '''
class Guarded(object):
    # attribute removal goes through user code: a call from sigtools into code outside it, which may fail
    # after the first of the two attributes is already gone
    def __init__(self, fn):
        functools.update_wrapper(self, fn)
        self.__signature__ = inspect.signature(inner2)
    def __delattr__(self, name):
        object.__delattr__(self, name)
    def __call__(self, a, *args, **kwargs): return self.__wrapped__(1, *args, **kwargs)
f = Guarded(inner)
''', 'f', 'sigtools'),
    ('signature-attr-upgraded-empty-provenance', '''
def f(a, *args, **kwargs): return inner(*args, **kwargs)
f.__signature__ = signatures.signature(f).replace(sources={})
''', 'f', 'sigtools'),
    ('signature-attr-upgraded-empty-provenance-noauto', '''
def f(a, *args, **kwargs): return inner(*args, **kwargs)
f.__signature__ = signatures.signature(f).replace(sources={})
''', 'f', 'noauto'),
    ('signature-object-shared-by-two-functions', '''
def f(a, *args, **kwargs): return inner(*args, **kwargs)
def h(a, *args, **kwargs): return inner(*args, **kwargs)
shared = signatures.signature(inner2)
f.__signature__ = shared
h.__signature__ = shared
f.sibling = h
''', 'f', 'sigtools'),
    ('partial-over-hand-built-upgraded-signature', '''
P = signatures.UpgradedParameter
def g(a, **kwargs): return inner(a, **kwargs)
# a hand-built upgraded signature whose parameters were made without saying where they come from
g.__signature__ = signatures.UpgradedSignature([P('a', P.POSITIONAL_OR_KEYWORD), P('kwargs', P.VAR_KEYWORD)])
def h(b, c=1): return b
h.__signature__ = signatures.UpgradedSignature([P('b', P.POSITIONAL_OR_KEYWORD), P('c', P.POSITIONAL_OR_KEYWORD, default=1)])
f = functools.partial(g, z=1)
f.sibling = h
''', 'f', 'sigtools'),
    ('lru-cache', '''
@functools.lru_cache()
def f(a, *args, **kwargs): return 1
''', 'f', 'sigtools'),
    ('staticmethod-object', '''
def g(a, *args, **kwargs): return inner(*args, **kwargs)
f = staticmethod(g)
''', 'f', 'sigtools'),
]


def build(name):
    for n, src, var, how in SCENARIOS:
        if n == name:
            g = sigs.compile_module(PRELUDE + src, tag='vfault')
            return g, g[var], how
    raise KeyError(name)


def make_op(g, f, how):
    import sigtools
    if how == 'sigtools':
        return lambda: sigtools.signature(f)
    if how == 'noauto':
        return lambda: sigtools.signature(f, auto=False)
    return lambda: inspect.signature(f)


def guard_state():
    from sigtools import specifiers
    try:
        return set(specifiers.as_forged.currently_computing)
    except Exception:
        return set()


def run_scenario(ctx, name, only=None):
    """Enumerate every (crossing, exception class) of one scenario."""
    g, f, how = build(name)
    op = make_op(g, f, how)
    INJ.install()
    # state before anything was retrieved; warm-up (linecache, lazy imports);
    # then the numbering run twice
    pristine = snapshot(f)
    INJ.learn_begin()
    INJ.passive(op)
    changed = diff_snapshots(pristine, snapshot(f))
    ctx.evaluated()
    if changed:
        ctx.violation('C16', 'FaultMonitor', 'state-changed-by-plain-retrieval@' + mech_of(changed),
                      'a retrieval without any fault changed the inspected object: ' + '; '.join(changed[:4]),
                      {'scenario': name, 'changes': changed[:8]},
                      dict(workload='fault', scenario=name, crossing=0, exc='none'))
    out0, sites = INJ.passive(op)
    out1, sites1 = INJ.passive(op)
    INJ.learn_end()
    K = len(sites)
    stable = sites1 == sites
    before = snapshot(f)
    if guard_state():
        ctx.violation('C16', 'FaultMonitor', 'guard-not-empty-after-passive-run',
                      'as_forged recursion guard not empty after a plain retrieval', {'scenario': name},
                      dict(workload='fault', scenario=name, crossing=0, exc='none'))
    rendered0 = render_outcome(out0)
    if ctx.shard == 0:
        per = ctx.extra.setdefault('crossings_per_scenario', {})
        per[name] = K
        ctx.extra['crossings_total'] = ctx.extra.get('crossings_total', 0) + K
        ctx.extra['distinct_sites_total'] = ctx.extra.get('distinct_sites_total', 0) + len(set(sites))
    if not stable:
        ctx.count('C16.unstable_scenarios')
    if ctx.shard == 0:
        ctx.count('C16.scenarios')
    if K == 0:
        ctx.count('C16.scenarios_without_crossings')
    # quick tier: every crossing with InjectedFault (complete for that class);
    # the six other classes at up to 4 occurrences of each distinct site
    # (first two, last two).  thorough tier: everything.
    occ = {}
    for idx, s in enumerate(sites, 1):
        occ.setdefault(s, []).append(idx)
    capped = set()
    for s, idxs in occ.items():
        capped.update(idxs[:2] + idxs[-1:])
    big = K > 400       # quick tier: capped crossings x 3 classes only; complete in the thorough tier
    if ctx.shard == 0:
        ctx.extra.setdefault('quick_tier_complete_for_InjectedFault', {})[name] = not big
    for i in range(1, K + 1):
        for exc in EXC_CLASSES:
            if only and (i, exc.__name__) != only:
                continue
            if not only:
                if ctx.tier == 'quick':
                    if big and (i not in capped or exc not in QUICK_BIG_CLASSES):
                        continue
                    if exc is not InjectedFault and i not in capped:
                        continue
                ctx.extra['_fault_seq'] = ctx.extra.get('_fault_seq', 0) + 1
                if not ctx.mine(ctx.extra['_fault_seq']):
                    continue
            out, fired = INJ.inject(op, i, exc)
            ctx.evaluated()
            ctx.count('C16.injected_runs')
            if fired is None:
                ctx.count('C16.injection_not_reached')
                continue
            ctx.nontrivial((name, i, exc.__name__))
            outcome = render_outcome(out)
            ctx.count('C16.outcome_' + ('returned' if out[0] == 'ret' else 'raised'))
            after = snapshot(f)
            problems = diff_snapshots(before, after)
            guard = guard_state()
            if guard:
                problems.append('as_forged recursion guard still holds %d object(s)' % len(guard))
                from sigtools import specifiers
                try:
                    specifiers.as_forged.currently_computing.clear()
                except Exception:
                    pass
            ctx.sample('injected-run', {'scenario': name, 'crossing': i, 'site': fired, 'exception': exc.__name__,
                                        'outcome': outcome, 'state_unchanged': not problems}, limit=4)
            if problems:
                site_key = fired.split(' -> ')[0].split(':')[0] + '->' + fired.split(' -> ')[1].split(' ')[0]
                ctx.violation('C16', 'FaultMonitor', 'state-changed-after-fault@' + mech_of(problems),
                              'after an injected %s at crossing %d (%s) of %s(f): %s' % (
                                  exc.__name__, i, fired, how, '; '.join(problems[:4])),
                              {'scenario': name, 'crossing': i, 'site': fired, 'exception': exc.__name__,
                               'outcome': outcome, 'changes': problems[:8]},
                              dict(workload='fault', scenario=name, crossing=i, exc=exc.__name__))
                # rebuild: the damaged object must not mask later crash points
                g, f, how = build(name)
                op = make_op(g, f, how)
                INJ.learn_begin()
                INJ.passive(op)
                INJ.passive(op)
                INJ.learn_end()
                before = snapshot(f)
    # the run must end where it started
    INJ.learn_begin()
    out_end, sites_end = INJ.passive(op)
    INJ.learn_end()
    if render_outcome(out_end) != rendered0 and K:
        ctx.count('C16.final_answer_differs')
        ctx.violation('C16', 'FaultMonitor', 'answer-changed-after-faults',
                      'after the injected runs the retrieval no longer gives its initial answer',
                      {'scenario': name, 'initial': rendered0, 'final': render_outcome(out_end)},
                      dict(workload='fault', scenario=name, crossing=0, exc='none'))
    return K


def mech_of(problems):
    p = problems[0]
    verb = 'lost' if ('lost' in p or 'guard' in p) else ('gained' if 'gained' in p else 'changed')
    for key in ('__wrapped__', '__signature__', 'recursion guard'):
        if key in p:
            return verb + '-' + key.strip('_').replace(' ', '-')
    return verb + '-other'


def render_outcome(out):
    kind, v = out
    if kind == 'ret':
        try:
            return 'returned ' + str(v)
        except Exception:
            return 'returned <unprintable>'
    return 'raised ' + type(v).__name__


GUARD_SRC = PRELUDE + '''
import threading
entered = threading.Event()
release = threading.Event()
def slow_forger(obj):
    entered.set()
    release.wait(10)
    return signatures.signature(inner)
def quick_forger(obj):
    return signatures.signature(inner2)
class Slow(object):
    __signature__ = specifiers.as_forged
    def __call__(self, *args, **kwargs): return inner(*args, **kwargs)
class Quick(object):
    __signature__ = specifiers.as_forged
    def __call__(self, *args, **kwargs): return inner2(*args, **kwargs)
slow = specifiers.set_signature_forger(Slow(), slow_forger)
quick = specifiers.set_signature_forger(Quick(), quick_forger)
'''


def run_guard_while_another_thread_computes(ctx):
    """'After sigtools.signature(f) returns ... the recursion guard behind as_forged is empty':
    also while ANOTHER thread is suspended in the middle of computing a forged signature (inside a
    user-supplied forger).  Deterministic: the other thread is parked on an event."""
    import threading
    import sigtools
    g = sigs.compile_module(GUARD_SRC, tag='vguard')
    result = {}

    def other():
        try:
            result['a'] = str(inspect.signature(g['slow']))
        except Exception as e:
            result['a'] = 'raised %s' % type(e).__name__
    t = threading.Thread(target=other)
    t.start()
    try:
        if not g['entered'].wait(10):
            ctx.inconclusive.append('guard scenario: the other thread never reached its forger')
            return
        rp = dict(workload='guard-threads')
        for label, op in (('sigtools.signature(quick)', lambda: sigtools.signature(g['quick'])),
                          ('inspect.signature(quick)', lambda: inspect.signature(g['quick'])),
                          ('sigtools.signature(plain function)', lambda: sigtools.signature(g['inner2']))):
            ctx.evaluated()
            ctx.count('C16.guard_checked_while_other_thread_computes')
            try:
                got = str(op())
            except Exception as e:
                got = 'raised %s' % type(e).__name__
            held = guard_state()
            ctx.nontrivial(('guard-threads', label))
            if held:
                ctx.violation('C16', 'FaultMonitor', 'guard-not-empty-after-return-while-other-thread-computes',
                              'after %s returned, the recursion guard seen by the retrieving thread holds %d object(s) (another thread is in the middle of a forged-signature computation)' % (label, len(held)),
                              {'retrieval': label, 'result': got, 'guard': [type(o).__name__ for o in held]}, rp)
                break
    finally:
        g['release'].set()
        t.join(20)
    ctx.evaluated()
    if guard_state():
        ctx.violation('C16', 'FaultMonitor', 'guard-not-empty-at-quiescence', 'the recursion guard is not empty after all threads finished',
                      {'other_thread_result': result.get('a')}, dict(workload='guard-threads'))


def run(ctx):
    names = [s[0] for s in SCENARIOS]
    try:
        for name in names:
            run_scenario(ctx, name)
    finally:
        INJ.uninstall()
    if ctx.shard == 0:
        run_guard_while_another_thread_computes(ctx)
    ctx.extra.pop('_fault_seq', None)
    if ctx.tier == 'thorough':
        ctx.exhaustive['crash points of each scenario x %d exception classes' % len(EXC_CLASSES)] = True
    else:
        ctx.exhaustive['crash points of each scenario with <= 400 crossings x InjectedFault'] = True
    ctx.floor('C16.injected_runs', 500)


def replay(ctx, rec):
    if rec.get('workload') == 'guard-threads':
        return run_guard_while_another_thread_computes(ctx)
    try:
        only = (rec['crossing'], rec['exc']) if rec.get('crossing') else None
        run_scenario(ctx, rec['scenario'], only=only)
    finally:
        INJ.uninstall()

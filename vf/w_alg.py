"""W-ALG: drive merge / embed / mask / forwards / sort_params / apply_params over
the signature universe.  The driver only *produces executions*; deciding is the
job of whatever monitors are enabled on the attach points."""
import itertools

from . import sigs, oracle
from .sigs import PO, PK, VA, KO, VK

_fn_counter = itertools.count()


class SigPool(object):
    """Live UpgradedSignature objects for parameter lists; every signature is
    retrieved from its own real function (so provenance is real)."""

    def __init__(self, meta_rng=None, future=False, globs=None):
        self.cache = {}
        self.meta_rng = meta_rng
        self.future = future
        self.globs = globs

    def sig(self, params, fresh=False):
        from sigtools import signatures
        if not fresh:
            s = self.cache.get(params)
            if s is not None:
                return s
        f = sigs.make_func(params, name='fn%d' % next(_fn_counter), globs=self.globs,
                           future=self.future)
        s = signatures.signature(f)
        if not fresh:
            if len(self.cache) > 60000:
                self.cache.clear()
            self.cache[params] = s
        return s


class MetaPool(object):
    """Extended universe: every request decorates the parameter list with
    defaults and annotations drawn from small pools (so that agreement and
    disagreement both occur) and builds a fresh function."""

    def __init__(self, rnd, defaults=('1', '2', '3'), anns=('1', '2', '3'), p_ann=0.5,
                 future=False, globs=None):
        self.rnd = rnd
        self.defaults = defaults
        self.anns = anns
        self.p_ann = p_ann
        self.future = future
        self.globs = globs

    def decorate(self, params):
        rnd = self.rnd
        out = []
        for n, k, d, a in params:
            if d is not None:
                d = rnd.choice(self.defaults)
            if rnd.random() < self.p_ann:
                a = rnd.choice(self.anns)
            out.append((n, k, d, a))
        return tuple(out)

    def sig(self, params, fresh=False):
        from sigtools import signatures
        from .sigutil import plain_copy
        rnd = self.rnd
        params = self.decorate(params)
        ret = rnd.choice(self.anns) if rnd.random() < 0.3 else None
        # where the signature comes from: a function (upgraded annotations available), a class or a
        # callable instance (annotations present but no code object to upgrade them from), or a plain
        # inspect.Signature handed over by the caller (deprecated, upgraded on the fly)
        origin = rnd.choice(self.ORIGINS)
        name = 'fn%d' % next(_fn_counter)
        if origin in ('class', 'instance'):
            first = ('self', PO if sigs.has_kind(params, PO) else PK, None, None)
            f = sigs.make_func((first,) + tuple(params), name=name, globs=self.globs, future=self.future, ret=ret)
            K = type('K' + name, (object,), {'__init__' if origin == 'class' else '__call__': f})
            return signatures.signature(K if origin == 'class' else K())
        f = sigs.make_func(params, name=name, globs=self.globs, future=self.future, ret=ret)
        s = signatures.signature(f)
        if origin == 'plain':
            return plain_copy(s)
        return s

    ORIGINS = ('function',) * 7 + ('class', 'instance', 'plain')


class AlwaysEqual(object):
    """A default value like unittest.mock.ANY: compares equal to everything (Parameter.empty included)."""
    def __eq__(self, other):
        return True

    def __ne__(self, other):
        return False

    __hash__ = object.__hash__

    def __repr__(self):
        return '<ANY>'


ANYTHING = AlwaysEqual()


def call(fn, *a, **k):
    """Invoke an operation of the algebra; outcomes (including exceptions) are
    the monitors' business, not the driver's."""
    try:
        return fn(*a, **k)
    except Exception:
        return None


def sigapi():
    from sigtools import signatures
    return signatures


# ------------------------------------------------------------------- merges

def merge_cases(ctx, tier, want='any'):
    """Yields tuples of parameter lists to merge.
    want: 'any' | 'aligned' (bias towards name-aligned tuples)."""
    small = sigs.U(('a', 'b'), 1)
    idx = 0
    # exhaustive tiny sub-space: every ordered pair over U({a,b},1)
    for x in small:
        for y in small:
            if ctx.mine(idx):
                yield (x, y)
            idx += 1
    ctx.exhaustive['merge pairs over U({a,b},1) x both star-name sets'] = True
    if tier == 'thorough':
        mid = sigs.U(('a', 'b', 'c'), 2, stars=sigs.STARS2[:1])
        idx = 0
        done = True
        for x in mid:
            if ctx.out_of_time('exhaustive merge pairs'):
                done = False
                break
            for y in mid:
                if ctx.mine(idx):
                    yield (x, y)
                idx += 1
        ctx.exhaustive['merge pairs over U({a,b,c},2)'] = done
    rnd = ctx.rng('merge')
    big = sigs.U(('a', 'b', 'c'), 3)
    big4 = sigs.U(('a', 'b', 'c', 'd'), 3)
    n_random = {'quick': 30000, 'thorough': 3000000}[tier] // ctx.nshards
    big44 = sigs.U(('a', 'b', 'c', 'd'), 4) if tier == 'thorough' else None     # 35 371 parameter lists
    for i in range(n_random):
        if ctx.out_of_time('random merges'):
            break
        r = rnd.random()
        pool = big4 if r > 0.8 else big
        if big44 is not None and r > 0.93:
            pool = big44
        k = 2 if r < 0.45 else (3 if r < 0.9 else 4)
        case = tuple(rnd.choice(pool) for _ in range(k))
        if want == 'aligned' and not oracle.name_aligned([sigs.shape_key(p) for p in case]):
            # derive an aligned tuple from the first element instead of dropping the draw
            case = aligned_variants(rnd, case[0], k)
        yield case


def aligned_variants(rnd, base, k):
    """k parameter lists using the names of `base` in the same positional order."""
    out = [base]
    pos = [p for p in base if p[1] in (PO, PK)]
    kwo = [p for p in base if p[1] == KO]
    for _ in range(k - 1):
        npos = rnd.randint(0, len(pos))
        ps = []
        split = rnd.randint(0, npos)
        ndef = rnd.randint(0, npos)
        for i, p in enumerate(pos[:npos]):
            ps.append((p[0], PO if i < split else PK, '1' if i >= npos - ndef else None, None))
        rest = [p for p in pos[npos:] if rnd.random() < 0.4]
        ko = [(p[0], KO, '1' if rnd.random() < 0.5 else None, None)
              for p in kwo + rest if rnd.random() < 0.7]
        sa, sk = rnd.choice(sigs.STARS2)
        used = {p[0] for p in ps} | {p[0] for p in ko}
        if rnd.random() < 0.6 and sa not in used:
            ps.append((sa, VA, None, None))
        ps.extend(ko)
        if rnd.random() < 0.6 and sk not in used:
            ps.append((sk, VK, None, None))
        out.append(tuple(ps))
    return tuple(out)


def drive_merge(ctx, tier, want='any', pool=None):
    S = sigapi()
    pool = pool or SigPool()
    for case in merge_cases(ctx, tier, want):
        ctx.count('driver.merge')
        call(S.merge, *[pool.sig(p) for p in case])


def drive_merge_renames(ctx, tier):
    """Rename patterns: two (and three) inputs of three or four positional-or-keyword parameters whose names, position by
    position, either agree or differ -- every pattern (differ/agree/differ, agree/differ/agree/differ, ...), with and
    without trailing defaults and star parameters.  Shared names sit at the same index with the same kind, so the second
    clause of C01 applies to every one of these merges; the universes never have enough names for them."""
    S = sigapi()
    pool = SigPool()
    left = ('a', 'b', 'c', 'd')
    right = ('w', 'x', 'y', 'z')
    third = ('q', 'r', 's', 't')
    idx = 0
    for n in (3, 4):
        for pattern in itertools.product((True, False), repeat=n):
            for ndef in (0, 1):
                for tail in ((), (('args', VA, None, None),), (('kwargs', VK, None, None),)):
                    idx += 1
                    if not ctx.mine(idx):
                        continue
                    mk = lambda names: tuple((nm, PK, ('1' if k >= n - ndef else None), None) for k, nm in enumerate(names)) + tail
                    p1 = mk(left[:n])
                    p2 = mk([left[k] if same else right[k] for k, same in enumerate(pattern)])
                    p3 = mk([left[k] if same else third[k] for k, same in enumerate(pattern)])
                    ctx.count('driver.merge_renames')
                    call(S.merge, pool.sig(p1), pool.sig(p2))
                    call(S.merge, pool.sig(p2), pool.sig(p1))
                    call(S.merge, pool.sig(p1), pool.sig(p2), pool.sig(p3))


def drive_merge_laws(ctx, tier):
    """merge(s), merge(s, s), neutral element on both sides, round trip."""
    S = sigapi()
    pool = SigPool()
    U = sigs.U(('a', 'b', 'c'), 3 if tier == 'thorough' else 2)
    bares = [((sa, VA, None, None), (sk, VK, None, None)) for sa, sk in (('args', 'kwargs'), ('p', 'k'), ('x1', 'x2'))]
    for i, p in enumerate(U):
        if not ctx.mine(i) or ctx.out_of_time('merge laws'):
            continue
        s = pool.sig(p)
        call(S.merge, s)
        call(S.merge, s, s)
        call(S.merge, s, pool.sig(p, fresh=True))
        for b in bares:
            call(S.merge, s, pool.sig(b))
            call(S.merge, pool.sig(b), s)
        call(S.sort_params, s)
        call(S.sort_params, s, sources=True)
        # the same laws with None (a value like any other) and with unequal values as defaults
        if any(x[2] is not None for x in p):
            pn = tuple((x[0], x[1], 'None' if x[2] is not None else None, x[3]) for x in p)
            sn = pool.sig(pn)
            call(S.merge, sn)
            call(S.merge, sn, sn)
            call(S.merge, sn, pool.sig(pn, fresh=True))
            call(S.merge, sn, s)
            call(S.merge, s, sn, pool.sig(tuple((x[0], x[1], '3' if x[2] is not None else None, x[3]) for x in p)))
            for b in bares[:1]:
                call(S.merge, sn, pool.sig(b))
                call(S.merge, pool.sig(b), sn)
    ctx.exhaustive['merge laws over U({a,b,c},%d)' % (3 if tier == 'thorough' else 2)] = \
        not ctx.out_of_time()


# ------------------------------------------------------------------- embeds

def embed_cases(ctx, tier):
    outers = sigs.U(('a', 'b'), 2)
    inners = sigs.U(('c', 'a', 'x'), 2)
    flags = [(True, True), (True, False), (False, True), (False, False)]
    rnd = ctx.rng('embed')
    if tier == 'thorough':
        idx = 0
        done = True
        for o in outers:
            if ctx.out_of_time('exhaustive embed pairs'):
                done = False
                break
            for i in inners:
                if ctx.mine(idx):
                    for f in flags:
                        yield (o, i), f
                idx += 1
        ctx.exhaustive['embed: outer in U({a,b},2) x inner in U({c,a,x},2) x 4 flag sets'] = done
    else:
        so = sigs.U(('a',), 1)
        si = sigs.U(('c', 'a'), 1)
        for o in so:
            for i in si:
                for f in flags:
                    yield (o, i), f
        ctx.exhaustive['embed: outer in U({a},1) x inner in U({c,a},1) x 4 flag sets'] = True
    n_random = {'quick': 20000, 'thorough': 1500000}[tier] // ctx.nshards
    mids = sigs.U(('m', 'a'), 1)
    big_o = sigs.U(('a', 'b', 'd'), 3)
    big_i = sigs.U(('c', 'a', 'x'), 3)
    for _ in range(n_random):
        if ctx.out_of_time('random embeds'):
            break
        r = rnd.random()
        f = rnd.choice(flags) if rnd.random() < 0.5 else (True, True)
        if r < 0.06:
            # an ordinary parameter of the inner signature is spelled like a star parameter of the outer one
            # (start(target, *, args=(), kwargs=None) under spawn(label, *args, **kwargs))
            o, i = rnd.choice(outers), rnd.choice(inners)
            stars_o = [p[0] for p in o if p[1] in (VA, VK)]
            named_i = [k for k, p in enumerate(i) if p[1] not in (VA, VK)]
            if stars_o and named_i:
                k_, nm_ = rnd.choice(named_i), rnd.choice(stars_o)
                if nm_ not in [p[0] for p in i]:
                    i = tuple(((nm_,) + p[1:]) if j == k_ else p for j, p in enumerate(i))
            yield (o, i), f
        elif r < 0.5:
            yield (rnd.choice(outers), rnd.choice(inners)), f
        elif r < 0.75:
            yield (rnd.choice(big_o), rnd.choice(big_i)), f
        else:
            o = rnd.choice(outers)
            # triples: middle must forward something for the law to be interesting
            yield (o, rnd.choice(mids), rnd.choice(inners)), f


def drive_embed(ctx, tier, pool=None):
    S = sigapi()
    pool = pool or SigPool()
    for case, (uva, uvk) in embed_cases(ctx, tier):
        ctx.count('driver.embed')
        call(S.embed, *[pool.sig(p) for p in case], use_varargs=uva, use_varkwargs=uvk)


# -------------------------------------------------------------------- masks

def name_tuples(params, maxlen, include_posonly=False, dup=False):
    cand = [p[0] for p in params if p[1] in (PK, KO) or (include_posonly and p[1] == PO)]
    cand.append(oracle.FOREIGN)
    # a keyword spelled like the *args / **kwargs parameter itself is an ordinary foreign keyword (**kwargs takes it)
    cand.extend(p[0] for p in params if p[1] in (VA, VK))
    out = [()]
    for r in range(1, maxlen + 1):
        out.extend(itertools.permutations(cand, r))
    if dup:
        for c in cand:
            out.append((c, c))
            others = [x for x in cand if x != c]
            if others:
                out.append((c, others[0], c))
    return out


FLAGSETS = [dict(zip(('hide_args', 'hide_kwargs', 'hide_varargs', 'hide_varkwargs'), bits))
            for bits in itertools.product((False, True), repeat=4)]


def mask_cases(ctx, tier, flags=True, dup=False, include_posonly=False):
    rnd = ctx.rng('mask')
    U = sigs.U(('a', 'b', 'c'), 3, stars=sigs.STARS2[:1])
    if tier == 'quick':
        order = list(range(len(U)))
        rnd.shuffle(order)
        chosen = order[:260]
        small = sigs.U(('a', 'b'), 2, stars=sigs.STARS2[:1])
        plan = [(small, range(len(small)), True), (U, chosen, False)]
    else:
        plan = [(U, range(len(U)), True)]
    # longer parameter lists (4-5 named parameters: several positional-only ones followed by several
    # positional-or-keyword ones cannot occur among 3): a seeded sample
    U4 = [p for p in sigs.U(('a', 'b', 'c', 'd'), 4, stars=sigs.STARS2[:1]) if sum(1 for x in p if x[1] in (PO, PK)) >= 3]
    big = []
    for _ in range({'quick': 50, 'thorough': 6000}[tier]):
        p = rnd.choice(U4)
        if rnd.random() < 0.5 and not any(x[0] == 'e' for x in p):
            # a fifth, defaulted positional-or-keyword parameter after the last positional one
            k = max(i for i, x in enumerate(p) if x[1] in (PO, PK)) + 1
            if all(x[2] is not None or x[1] not in (PO, PK) for x in p[k:]):
                p = p[:k] + (('e', PK, '5', None),) + p[k:]
        big.append(p)
    # (in the quick tier before the larger seeded sample, so that a tight budget cuts that one)
    plan.insert(1 if tier == 'quick' else len(plan), (big, range(len(big)), False))
    idx = 0
    for space, indexes, exhaustive in plan:
        done = True
        for j in indexes:
            if ctx.out_of_time('masks'):
                done = False
                break
            if not ctx.mine(idx):
                idx += 1
                continue
            idx += 1
            p = space[j]
            npar = len(p)
            for n in range(0, npar + 3):
                for names in name_tuples(p, 3 if exhaustive or tier == 'thorough' else 2,
                                         include_posonly=include_posonly, dup=dup):
                    yield p, n, names, FLAGSETS[0]
                    if flags:
                        if tier == 'thorough' and len(names) <= 1:
                            for fs in FLAGSETS[1:]:
                                yield p, n, names, fs
                        else:
                            yield p, n, names, rnd.choice(FLAGSETS[1:])
        if exhaustive:
            ctx.exhaustive['mask: %d signatures x n in 0..len+2 x every name tuple (<=3)' % len(space)] = done


def drive_mask(ctx, tier, pool=None, **kw):
    S = sigapi()
    pool = pool or SigPool()
    for p, n, names, fs in mask_cases(ctx, tier, **kw):
        ctx.count('driver.mask')
        call(S.mask, pool.sig(p), n, *names, **fs)


# ----------------------------------------------------------------- forwards

def forwards_cases(ctx, tier):
    rnd = ctx.rng('forwards')
    outers = sigs.U(('a', 'b'), 2)
    inners = sigs.U(('x', 'y', 'a'), 3, stars=sigs.STARS2[:1])
    n_random = {'quick': 15000, 'thorough': 1500000}[tier] // ctx.nshards
    for _ in range(n_random):
        if ctx.out_of_time('random forwards'):
            break
        o = rnd.choice(outers)
        i = rnd.choice(inners)
        if rnd.random() < 0.2:
            i = sigs.pick_stratified(rnd, ('w', 'x', 'y', 'a'), 4, sigs.STARS2[:1])
        n = rnd.randint(0, min(3, len(i) + 1))
        npo = sum(1 for p in i if p[1] == PO)
        if npo >= 2 and rnd.random() < 0.4:
            n = rnd.randint(1, npo - 1)     # the count ends strictly inside the positional-only group
        cand = [p[0] for p in i if p[1] in (PK, KO)] + [oracle.FOREIGN]
        names = tuple(rnd.sample(cand, rnd.randint(0, min(2, len(cand)))))
        kw = dict(use_varargs=rnd.random() < 0.8, use_varkwargs=rnd.random() < 0.8,
                  hide_args=rnd.random() < 0.15, hide_kwargs=rnd.random() < 0.15,
                  partial=rnd.random() < 0.15)
        yield o, i, n, names, kw


def drive_forwards(ctx, tier, pool=None):
    S = sigapi()
    pool = pool or SigPool()
    for o, i, n, names, kw in forwards_cases(ctx, tier):
        ctx.count('driver.forwards')
        call(S.forwards, pool.sig(o), pool.sig(i), n, *names, **kw)


# ------------------------------------------------------------------- replay

def replay(ctx, rec):
    """Re-execute one recorded algebra case under the enabled monitors."""
    S = sigapi()
    pool = SigPool()
    ins = [pool.sig(sigs.from_json(p), fresh=True) for p in rec['inputs']]
    kw = dict(rec.get('kwargs') or {})
    op = rec['op']
    rest = kw.pop('rest', None)
    if op == 'merge':
        call(S.merge, *ins)
    elif op == 'embed':
        call(S.embed, *ins, **kw)
    elif op in ('mask', '_mask'):
        if rest is not None:
            call(S.mask, ins[0], *rest, **kw)
        else:
            n = kw.pop('n', 0)
            names = kw.pop('names', ())
            call(S.mask, ins[0], n, *names, **kw)
    elif op == 'forwards':
        if rest is not None:
            call(S.forwards, ins[0], ins[1], *rest, **kw)
        else:
            n = kw.pop('n', 0)
            names = kw.pop('names', ())
            call(S.forwards, ins[0], ins[1], n, *names, **kw)
    elif op == 'roundtrip':
        call(S.sort_params, ins[0], sources=bool(kw.get('sources')))
    elif op == 'sort_params':
        call(S.sort_params, ins[0], **kw)
    elif op == 'apply_params':
        call(S.apply_params, ins[0], *S.sort_params(ins[0]))


# --------------------------------------------------------------- composites

def drive_composite(ctx, tier, n_cases=None, pool=None):
    """Random expression trees over the algebra: results of one operation are
    inputs of the next, so provenance maps with several callables, depths > 1
    and same-named star parameters reach every monitor."""
    S = sigapi()
    rnd = ctx.rng('composite')
    pool = pool or SigPool()
    leaves = sigs.U(('a', 'b', 'c'), 2) + sigs.U(('x', 'y'), 2)
    n_cases = n_cases or {'quick': 6000, 'thorough': 600000}[tier] // ctx.nshards

    local = []

    def leaf():
        # fresh functions now and then, shared ones otherwise (shared callables
        # reach a result through several inputs); within one tree a leaf already used is
        # often used again, so that one callable is reached along several paths of
        # different length (depth = the smallest, whichever input records it first)
        if local and rnd.random() < 0.4:
            return rnd.choice(local)
        s = pool.sig(rnd.choice(leaves), fresh=rnd.random() < 0.5)
        local.append(s)
        return s

    def build(depth):
        if depth == 0 or rnd.random() < 0.3:
            return leaf()
        op = rnd.choice(('merge', 'merge', 'embed', 'embed', 'mask', 'forwards'))
        try:
            if op == 'merge':
                k = rnd.choice((2, 2, 3))
                return S.merge(*[build(depth - 1) for _ in range(k)])
            if op == 'embed':
                k = rnd.choice((2, 2, 3))
                return S.embed(*[build(depth - 1) for _ in range(k)],
                               use_varargs=rnd.random() < 0.85, use_varkwargs=rnd.random() < 0.85)
            if op == 'mask':
                s = build(depth - 1)
                cand = [p.name for p in s.parameters.values()
                        if p.kind in (p.POSITIONAL_OR_KEYWORD, p.KEYWORD_ONLY)]
                names = rnd.sample(cand, rnd.randint(0, min(2, len(cand))))
                return S.mask(s, rnd.randint(0, 2), *names)
            o, i = build(depth - 1), build(depth - 1)
            cand = [p.name for p in i.parameters.values()
                    if p.kind in (p.POSITIONAL_OR_KEYWORD, p.KEYWORD_ONLY)]
            names = rnd.sample(cand, rnd.randint(0, min(1, len(cand))))
            return S.forwards(o, i, rnd.randint(0, 1), *names)
        except ValueError:
            return leaf()

    for _ in range(n_cases):
        if ctx.out_of_time('composite expressions'):
            break
        ctx.count('driver.composite')
        del local[:]
        try:
            build(3)
        except Exception:
            pass


def drive_partial_retrieval(ctx, tier, n_cases=None, meta=None):
    """signatures.signature(functools.partial(f, *a, **k)) over the universe."""
    import functools
    S = sigapi()
    rnd = ctx.rng('partial-retrieval')
    U = sigs.U(('a', 'b', 'c'), 3, stars=sigs.STARS2[:1])
    n_cases = n_cases or {'quick': 4000, 'thorough': 400000}[tier] // ctx.nshards
    for _ in range(n_cases):
        if ctx.out_of_time('partial retrievals'):
            break
        p = rnd.choice(U)
        if meta is not None:
            p = meta.decorate(p)
        f = sigs.make_func(p, name='fn%d' % next(_fn_counter))
        npos = rnd.randint(0, sigs.positional_capacity(p) + 1)
        cand = [x[0] for x in p if x[1] in (PK, KO)] + [oracle.FOREIGN]
        if sigs.has_kind(p, VK) and rnd.random() < 0.15:
            # a keyword that can only travel through **kwargs although it is spelled like a parameter: a positional-only
            # one, or the star parameters themselves
            cand += [x[0] for x in p if x[1] in (PO, VA, VK)]
        kws = rnd.sample(cand, rnd.randint(0, min(2, len(cand))))
        ctx.count('driver.partial')
        call(S.signature, functools.partial(f, *([0] * npos), **{k: 5 for k in kws}))

"""W-MOD (C12, order part of C18): kwoargs / posoargs / autokwoargs / annotate.

Boundary monitor: the decorated callable is compared with a *native* def
carrying the expected advertised parameter list -- signatures equal, and the
same outcome (TypeError, or the same name->value mapping) on every call shape
with distinguishable argument values, called directly and as a bound method.
"""
import inspect
import itertools

from . import sigs, oracle
from . import core
from .sigs import PO, PK, VA, KO, VK, KIND_OF
from .sigutil import show, show_params, safe_eq

_n = itertools.count()


def expected_params(fparams, make_kwo=(), make_po=()):
    """Advertised parameter list: `make_kwo` made keyword-only and moved behind
    *args and the native keyword-only ones (relative order kept), `make_po`
    made positional-only in place; defaults and annotations kept."""
    front, star, kwo_native, kwo_conv, vk = [], [], [], [], []
    for n, k, d, a in fparams:
        if k == PK and n in make_kwo:
            kwo_conv.append((n, KO, d, a))
        elif k == PK and n in make_po:
            front.append((n, PO, d, a))
        elif k in (PO, PK):
            front.append((n, k, d, a))
        elif k == VA:
            star.append((n, k, d, a))
        elif k == KO:
            kwo_native.append((n, k, d, a))
        else:
            vk.append((n, k, d, a))
    return tuple(front + star + kwo_native + kwo_conv + vk)


def valid_def(params):
    try:
        compile('def f(%s): pass' % sigs.render(params), '<v>', 'exec')
        return True
    except SyntaxError:
        return False


def admissible_kwo(fparams, names):
    by = {p[0]: p for p in fparams}
    return all(n in by and by[n][1] in (PK, KO) for n in names)


def admissible_po(fparams, names):
    by = {p[0]: p for p in fparams}
    if not all(n in by and by[n][1] in (PK, PO) for n in names):
        return False
    seen_regular = False
    for n, k, d, a in fparams:
        if k == PK:
            if n in names:
                if seen_regular:
                    return False
            else:
                seen_regular = True
    return True


VALUES_P = [('p', i) for i in range(12)]


def behaviour(func, sp, skip_mask=0, kwvalue=None):
    """Outcome per shape: 'T' (TypeError) or the returned mapping.
    kwvalue: a function name -> value for the keyword arguments (default: a tagged tuple)."""
    kwvalue = kwvalue or (lambda k: ('k', k))
    out = []
    for i, (n, kws) in enumerate(sp.shapes):
        if (skip_mask >> i) & 1:
            out.append(None)
            continue
        try:
            r = func(*VALUES_P[:n], **{k: kwvalue(k) for k in kws})
        except TypeError:
            out.append('T')
        else:
            out.append(r)
    return out


def sig_meta(sig):
    return [(p.name, KIND_OF[p.kind], p.default, p.annotation) for p in sig.parameters.values()]


def same_meta(m1, m2):
    return len(m1) == len(m2) and all(
        a[0] == b[0] and a[1] == b[1] and safe_eq(a[2], b[2]) and safe_eq(a[3], b[3])
        for a, b in zip(m1, m2))


def build_pair(fparams, decorate_src, ref_params, method=False, extra_globals=None, reuse=False, forwarding=False):
    """exec the decorated function and the native reference; returns (g, ref, namespace).
    reuse: every decorator object is created once, applied to another function first, and
    then to the function under observation (a decorator object may be used any number of times)."""
    fn = 'mf%d' % next(_n)
    body = 'return dict(locals())'
    head = ''
    va, vk = sigs.star_name(fparams, VA), sigs.star_name(fparams, VK)
    if forwarding and (va or vk):
        # the decorated function forwards its star parameters to a callable with regular parameters of its own
        # (what the modifiers select from is the function's OWN parameter list, whatever discovery would add)
        head = 'def inner_(x_=0, y_=2, *a_, **k_): return None\n'
        call = 'inner_(%s)' % ', '.join((['*' + va] if va else []) + (['**' + vk] if vk else []))
        body = 'snapshot_ = dict(locals()); %s; return snapshot_' % call
    if reuse and not method:
        names = ['_deco%d' % i for i in range(len(decorate_src))]
        src = 'from sigtools import modifiers\n' + head
        src += ''.join('%s = %s\n' % (nm, l.lstrip('@')) for nm, l in zip(names, decorate_src))
        src += ''.join('@%s\n' % nm for nm in names) + 'def warmup_%s(%s): %s\n' % (fn, sigs.render(fparams), body)
        src += ''.join('@%s\n' % nm for nm in names) + 'def %s(%s): %s\n' % (fn, sigs.render(fparams), body)
        src += 'def ref_%s(%s): %s\n' % (fn, sigs.render(ref_params), body)
        g = sigs.compile_module(src, globs=extra_globals, tag='vmod')
        return g[fn], g['ref_' + fn], g
    if method:
        # every third class makes instances that are falsy (an empty container, __bool__ returning False)
        falsy = ('', '    def __len__(self): return 0\n', '    def __bool__(self): return False\n')[int(fn[2:]) % 3]
        src = ('from sigtools import modifiers\n' + head +
               'class A(object):\n'
               '%s'
               '%s'
               '    def %s(%s): %s\n'
               'class R(object):\n'
               '%s'
               '    def %s(%s): %s\n') % (
                   falsy, ''.join('    %s\n' % l for l in decorate_src), fn, sigs.render(fparams), body,
                   falsy, fn, sigs.render(ref_params), body)
    else:
        src = ('from sigtools import modifiers\n' + head +
               '%s'
               'def %s(%s): %s\n'
               'def ref_%s(%s): %s\n') % (
                   ''.join('%s\n' % l for l in decorate_src), fn, sigs.render(fparams), body,
                   fn, sigs.render(ref_params), body)
    g = sigs.compile_module(src, globs=extra_globals, tag='vmod')
    if method:
        return getattr(g['A'](), fn), getattr(g['R'](), fn), g
    return g[fn], g['ref_' + fn], g


@core.guarded(None)
def check_case(ctx, prop, fparams, decorate_src, make_kwo, make_po, admissible, method=False,
               label='', reuse=False):
    """One decoration.  `decorate_src` = decorator lines (outermost first)."""
    import sigtools
    V = lambda mech, what, w: ctx.violation(prop, 'ModifierBoundary', mech, what, w, rp)
    rp = dict(workload='mod', fparams=sigs.to_json(fparams), decorators=list(decorate_src),
              make_kwo=sorted(make_kwo), make_po=sorted(make_po), admissible=admissible, method=method,
              reuse=reuse)
    w = {'function': 'def f(%s)' % sigs.render(fparams), 'decorators': list(decorate_src), 'method': method,
         'decorator_objects_used_before': reuse}
    if reuse:
        ctx.count('%s.decorator_objects_reused' % prop)
    ctx.evaluated()
    ctx.count('%s.decorations' % prop)
    ref_params = expected_params(fparams, make_kwo, make_po) if admissible else fparams
    if admissible and not valid_def(ref_params):
        ctx.count('%s.skipped_expected_not_expressible' % prop)
        return None
    try:
        forwarding = (len(fparams) * 5 + len(decorate_src) * 3 + len(make_kwo) + len(make_po)) % 4 == 0 and \
            (sigs.has_kind(fparams, VA) or sigs.has_kind(fparams, VK))
        if forwarding:
            ctx.count('%s.decorated_function_forwards' % prop)
            w['body'] = 'forwards its star parameters to inner_(x_=0, y_=2, *a_, **k_)'
        g, ref, ns = build_pair(fparams, decorate_src, ref_params, method=method, reuse=reuse, forwarding=forwarding)
    except ValueError as e:
        if admissible:
            V('admissible-selection-raises', 'an admissible selection raised ValueError at decoration time: %s' % e, w)
        else:
            ctx.count('%s.inadmissible_rejected' % prop)
            ctx.nontrivial(('inadmissible', sigs.shape_key(fparams), tuple(decorate_src), method))
        return None
    except Exception as e:
        V('decoration-raises-%s' % type(e).__name__, 'decoration raised %s: %s' % (type(e).__name__, e), w)
        return None
    if not admissible:
        V('inadmissible-selection-accepted', 'an inadmissible selection did not raise ValueError at decoration time', w)
        return None
    ctx.nontrivial((sigs.shape_key(fparams), tuple(decorate_src), method, reuse))
    want = sig_meta(inspect.signature(ref))
    if not method and type(g).__name__ == '_PokTranslator' and (len(fparams) * 7 + len(decorate_src) + len(make_kwo) * 3 + len(make_po)) % 4 == 0:
        # functools.wraps / update_wrapper copies the metadata of ANOTHER decorated callable (other parameters, another
        # selection) onto this one: name, doc and attributes change hands, what it advertises and how it routes
        # arguments stay its own (the repository's tests pin .func, .kwoarg_names and the signature for this)
        import functools
        from sigtools import modifiers as _mod2

        def donor_(p_, q_=1, r_=2):
            return None
        try:
            g = functools.wraps(_mod2.posoargs('p_')(_mod2.kwoargs('r_')(donor_)))(g)
        except Exception as e:
            V('wraps-over-decorated-raises-%s' % type(e).__name__, 'functools.wraps(another decorated callable)(decorated callable) raised %s: %s' % (type(e).__name__, e), w)
            return None
        ctx.count('%s.metadata_of_another_decorated_callable_copied_on' % prop)
        w = dict(w, functools_wraps_applied='metadata of @posoargs("p_") @kwoargs("r_") def donor_(p_, q_=1, r_=2) copied on')
    # now and then modifiers.annotate is applied on top afterwards: it re-prepares the layers beneath it,
    # which must leave the advertised kinds/defaults and the call behaviour exactly as they were
    late = None
    named_ = [q[0] for q in (ref_params[1:] if method else ref_params) if q[1] in (PO, PK, KO)]
    if named_ and (len(decorate_src) + len(fparams) + len(named_)) % 3 == 0:
        from sigtools import modifiers as _mod
        late = named_[(len(fparams) + len(decorate_src)) % len(named_)]
        try:
            if method:
                cls = ns['A']
                fn_name = [k for k in vars(cls) if k.startswith('mf')][0]
                _mod.annotate(**{late: 'late'})(vars(cls)[fn_name])
                g = getattr(cls(), fn_name)
            else:
                _mod.annotate(**{late: 'late'})(g)
        except Exception as e:
            V('annotate-on-top-raises-%s' % type(e).__name__, 'modifiers.annotate applied on top of the decorated callable raised %s: %s' % (type(e).__name__, e), w)
            return None
        ctx.count('%s.annotate_applied_on_top' % prop)
        w = dict(w, annotate_applied_afterwards=late)
        want = [(n_, k_, d_, ('late' if n_ == late else a_)) for n_, k_, d_, a_ in want]
    for lab, retr in (('sigtools.signature', sigtools.signature), ('inspect.signature', inspect.signature)):
        if forwarding and retr is sigtools.signature:
            continue        # (discovery legitimately adds the callee's parameters: C05/C06 judge that)
        try:
            got = sig_meta(retr(g))
        except Exception as e:
            V('retrieval-raises', '%s raised %s on a decorated callable' % (lab, type(e).__name__), dict(w, exception=repr(e)))
            continue
        ctx.count('%s.signature_comparisons' % prop)
        if not same_meta(got, want):
            V('advertised-signature-differs', '%s of the decorated callable differs from the expected advertised signature' % lab,
              dict(w, got=str(retr(g)), expected=str(inspect.signature(ref))))
    # behaviour
    visible = [p for p in ref_params[1:]] if method else list(ref_params)
    bp = sigs.shape_key(tuple(visible))
    sp = oracle.Space.get(sigs.positional_capacity(bp) + 2, set(sigs.names_of(bp)) | {oracle.FOREIGN})
    skip = 0
    if sigs.has_kind(bp, VK):
        skip = sp.full & ~sp.without_keywords({p[0] for p in bp if p[1] == PO})
    b_g = behaviour(g, sp, skip)
    b_r = behaviour(ref, sp, skip)
    ctx.count('%s.calls_compared' % prop, sum(1 for x in b_g if x is not None))
    # the same shapes once more with falsy / None values passed by keyword (an explicitly passed None, 0 or ''
    # is a value like any other: it must arrive, not be taken for "not passed" and replaced by the default)
    falsy_ = {0: None, 1: 0, 2: ''}
    kwv = lambda k: falsy_[(len(k) + len(fparams) + sum(map(ord, k))) % 3]
    b_g2 = behaviour(g, sp, skip, kwv)
    b_r2 = behaviour(ref, sp, skip, kwv)
    ctx.count('%s.calls_compared_with_falsy_keyword_values' % prop, sum(1 for x in b_g2 if x is not None))
    for (n, kws), x, y in zip(sp.shapes, b_g2, b_r2):
        if x is None or x == 'T' or y == 'T':
            continue
        if method:
            x = {k: v for k, v in x.items() if k != visible_self(fparams)}
            y = {k: v for k, v in y.items() if k != visible_self(fparams)}
        if x != y:
            V('falsy-keyword-value-not-delivered', 'a None / 0 / empty value passed by keyword does not arrive at its parameter',
              dict(w, advertised=str(inspect.signature(ref)), shape=[n, sorted(kws)], got=repr(x), expected=repr(y)))
            break
    ctx.sample('decoration', lambda: dict(w, advertised=str(inspect.signature(ref)),
                                          shapes_compared=sum(1 for x in b_g if x is not None)), limit=4)
    for (n, kws), x, y in zip(sp.shapes, b_g, b_r):
        if x is None:
            continue
        if x == 'T' or y == 'T':
            if x != y:
                V('call-acceptance-differs',
                  'the decorated callable %s a call its advertised signature %s' % (
                      ('rejects', 'accepts') if x == 'T' else ('accepts', 'rejects')),
                  dict(w, advertised=str(inspect.signature(ref)), shape=[n, sorted(kws)]))
                break
        else:
            if method:
                x = {k: v for k, v in x.items() if k != visible_self(fparams)}
                y = {k: v for k, v in y.items() if k != visible_self(fparams)}
            if x != y:
                V('argument-routing-differs', 'an argument or default reaches another parameter than the signature binding assigns it to',
                  dict(w, advertised=str(inspect.signature(ref)), shape=[n, sorted(kws)], got=repr(x), expected=repr(y)))
                break
    return g, ref, b_g


def visible_self(fparams):
    return fparams[0][0]


# -------------------------------------------------------------- enumeration

def selections(fparams, method=False):
    """(decorator lines, make_kwo, make_po, admissible) for every decorator form."""
    params = fparams[1:] if method else fparams
    pk = [p[0] for p in params if p[1] == PK]
    others = [p[0] for p in params if p[1] != PK] + ['qq']
    out = []
    # kwoargs(*names): every subset of PK names, plus one foreign kind of name each
    for r in range(1, len(pk) + 1):
        for c in itertools.combinations(pk, r):
            out.append((["@modifiers.kwoargs(%s)" % ', '.join(map(repr, c))], set(c), set(), True))
    for o in others:
        for base in ([], pk[:1]):
            names = list(base) + [o]
            out.append((["@modifiers.kwoargs(%s)" % ', '.join(map(repr, names))], set(names) & set(pk), set(),
                        admissible_kwo(params, names)))
    for n in pk + others:
        adm = n in pk
        conv = set(pk[pk.index(n):]) if adm else set()
        out.append((["@modifiers.kwoargs(start=%r)" % n], conv, set(), adm))
    # posoargs
    for r in range(1, len(pk) + 1):
        for c in itertools.combinations(pk, r):
            adm = admissible_po(fparams, c) if not method else admissible_po(fparams, c)
            out.append((["@modifiers.posoargs(%s)" % ', '.join(map(repr, c))], set(), set(c), adm))
    for o in others:
        names = [o]
        out.append((["@modifiers.posoargs(%s)" % ', '.join(map(repr, names))], set(), set(),
                    admissible_po(fparams, names)))
    for n in pk + others:
        adm = n in pk
        allpk = [p[0] for p in fparams if p[1] == PK]
        conv = set(allpk[:allpk.index(n) + 1]) if adm else set()
        out.append((["@modifiers.posoargs(end=%r)" % n], set(), conv, adm))
    # autokwoargs
    defaulted = [p[0] for p in params if p[1] == PK and p[2] is not None]
    out.append((["@modifiers.autokwoargs"], set(defaulted), set(), True))
    for r in range(1, min(2, len(defaulted)) + 1):
        for c in itertools.combinations(defaulted, r):
            out.append((["@modifiers.autokwoargs(exceptions=%r)" % (list(c),)], set(defaulted) - set(c), set(), True))
    undefaulted = [p[0] for p in params if not (p[1] == PK and p[2] is not None)]
    for o in (undefaulted[:1] + ['qq']):
        out.append((["@modifiers.autokwoargs(exceptions=%r)" % ([o],)], set(), set(), False))
    # two stacked layers (outermost first): plain names over the end=/start= forms and the other way round
    if len(pk) >= 2:
        allpk_ = [p[0] for p in fparams if p[1] == PK]
        first, last = pk[0], pk[-1]
        po_conv = set(allpk_[:allpk_.index(first) + 1])
        kw_conv = set(pk[pk.index(last):])
        defaulted_ = {p[0] for p in params if p[1] == PK and p[2] is not None} - po_conv
        out.append((["@modifiers.kwoargs(%r)" % last, "@modifiers.posoargs(end=%r)" % first], {last}, po_conv, True))
        out.append((["@modifiers.posoargs(end=%r)" % first, "@modifiers.kwoargs(%r)" % last], {last}, po_conv, True))
        out.append((["@modifiers.autokwoargs", "@modifiers.posoargs(end=%r)" % first], defaulted_, po_conv, True))
        out.append((["@modifiers.posoargs(end=%r)" % first, "@modifiers.kwoargs(start=%r)" % last], kw_conv, po_conv, True))
        out.append((["@modifiers.kwoargs(start=%r)" % last, "@modifiers.posoargs(end=%r)" % first], kw_conv, po_conv, True))
        # the keyword-only selection lies *before* the end of the positional-only range: end= is evaluated on
        # what the inner layer advertises, so the range no longer contains it
        po_conv2 = set(allpk_[:allpk_.index(last) + 1]) - {first}
        out.append((["@modifiers.posoargs(end=%r)" % last, "@modifiers.kwoargs(%r)" % first], {first}, po_conv2, True))
    # both kinds at once
    if len(pk) >= 1:
        out.append((["@modifiers.kwoargs(%r)" % pk[0], "@modifiers.posoargs(%r)" % pk[0]], set(), set(), False))
    if len(pk) >= 2 and admissible_po(fparams, [pk[0]]):
        out.append((["@modifiers.kwoargs(%r)" % pk[1], "@modifiers.posoargs(%r)" % pk[0]], {pk[1]}, {pk[0]}, True))
    return out


def function_universe(ctx, tier):
    rnd = ctx.rng('mod-universe')
    U3 = sigs.U(('a', 'b', 'c'), 3, stars=sigs.STARS2[:1])
    if tier == 'quick':
        order = list(range(len(U3)))
        rnd.shuffle(order)
        fs = [U3[i] for i in sorted(order[:200])]
    else:
        fs = list(U3)
    U4 = [p for p in sigs.U(('a', 'b', 'c', 'd'), 4, stars=sigs.STARS2[:1]) if len(p) >= 4]
    fs += [rnd.choice(U4) for _ in range({'quick': 80, 'thorough': 6000}[tier])]
    return fs


def with_meta(rnd, params):
    out = []
    for i, (n, k, d, a) in enumerate(params):
        if d is not None:
            d = str(10 * (i + 1))
        if rnd.random() < 0.3:
            a = repr('ann_' + n)
        out.append((n, k, d, a))
    return tuple(out)


@core.guarded(None)
def check_inner_survives_stacking(ctx, prop, fparams, decorate_src):
    """g = inner(f); h = outer(g): building h must leave g as it was -- same advertised signature, same behaviour on
    every call shape (a decorated callable may be decorated further any number of times and still be used itself)."""
    import sigtools
    rp = dict(workload='mod-inner-survives', fparams=sigs.to_json(fparams), decorators=list(decorate_src))
    w = {'function': 'def f(%s)' % sigs.render(fparams), 'inner_decorator': decorate_src[-1], 'stacked_on_top_afterwards': decorate_src[:-1]}
    fn = 'mf%d' % next(_n)
    src = 'from sigtools import modifiers\n%s\ndef %s(%s): return dict(locals())\n' % (decorate_src[-1], fn, sigs.render(fparams))
    try:
        ns = sigs.compile_module(src, tag='vmod')
    except ValueError:
        return
    g = ns[fn]
    ctx.evaluated()
    ctx.count('%s.inner_kept_while_stacking' % prop)
    bp = sigs.shape_key(fparams)
    sp = oracle.Space.get(sigs.positional_capacity(bp) + 2, set(sigs.names_of(bp)) | {oracle.FOREIGN})
    before = (str(inspect.signature(g)), str(sigtools.signature(g)), behaviour(g, sp, 0))
    tops = []
    for line in reversed(decorate_src[:-1]):
        try:
            tops.append(eval(line.lstrip('@'), {'modifiers': ns['modifiers']})(tops[-1] if tops else g))
        except ValueError:
            break
    # a second, separate derivation from the same g
    try:
        tops.append(eval(decorate_src[0].lstrip('@'), {'modifiers': ns['modifiers']})(g))
    except ValueError:
        pass
    after = (str(inspect.signature(g)), str(sigtools.signature(g)), behaviour(g, sp, 0))
    ctx.nontrivial(('inner-survives', sigs.shape_key(fparams), tuple(decorate_src)))
    if before[:2] != after[:2]:
        ctx.violation(prop, 'ModifierBoundary', 'stacking-changes-inner-signature', 'decorating a decorated callable further changed what the inner one advertises',
                      dict(w, before=before[1], after=after[1]), rp)
    elif before[2] != after[2]:
        k = next(i for i, (x, y) in enumerate(zip(before[2], after[2])) if x != y)
        ctx.violation(prop, 'ModifierBoundary', 'stacking-changes-inner-behaviour', 'decorating a decorated callable further changed how the inner one behaves',
                      dict(w, advertised=before[1], shape=[sp.shapes[k][0], sorted(sp.shapes[k][1])], before=repr(before[2][k])[:200], after=repr(after[2][k])[:200]), rp)


SIBLINGS_SRC = '''
from sigtools import modifiers
def impl(self, a, b=2, c=3): return (a, b, c)
class A(object):
    plain = impl
    by_kw = modifiers.kwoargs('b')(impl)
    by_po = modifiers.posoargs(end='a')(impl)
    by_auto = modifiers.autokwoargs(impl)
class Sub(A):
    # a further modifier stacked on an attribute that was (or was not yet) looked up through its class
    stacked = modifiers.posoargs(end='a')(A.by_kw)
    def call_super(self): return super().by_kw
'''
SIBLING_WANT = {'plain': '(a, b=2, c=3)', 'by_kw': '(a, c=3, *, b=2)', 'by_po': '(a, /, b=2, c=3)', 'by_auto': '(a, *, b=2, c=3)',
                'stacked': '(a, /, c=3, *, b=2)'}


@core.guarded(None)
def check_siblings(ctx, prop, order_seed):
    """Several differently decorated attributes of one class wrap the SAME function; one is stacked on another in a
    subclass.  Looked up through classes and instances in a seeded order, with bound copies kept alive: every lookup
    advertises and enforces its own selection, whatever was looked up before."""
    import random
    import sigtools
    rnd = random.Random(order_seed)
    ns = sigs.compile_module(SIBLINGS_SRC.lstrip('\n'), tag='vmodsib')
    A, Sub = ns['A'], ns['Sub']
    x, y = A(), Sub()
    keep = []
    accesses = []
    for name in ('plain', 'by_kw', 'by_po', 'by_auto'):
        accesses += [('A().%s' % name, lambda n=name: getattr(x, n), name), ('Sub().%s' % name, lambda n=name: getattr(y, n), name)]
    accesses += [('Sub().stacked', lambda: y.stacked, 'stacked'), ('super().by_kw', lambda: y.call_super(), 'by_kw'),
                 ('A.by_kw (class)', lambda: A.by_kw, None), ('Sub.stacked (class)', lambda: Sub.stacked, None)]
    rnd.shuffle(accesses)
    ctx.evaluated()
    ctx.count('%s.sibling_sequences' % prop)
    rp = dict(workload='mod-siblings', order_seed=order_seed)
    done = []
    for label, get, kind in accesses + accesses[:4]:
        done.append(label)
        try:
            obj = get()
            keep.append(obj)
            if kind is None:
                str(sigtools.signature(obj))
                continue
            got = (str(inspect.signature(obj)), str(sigtools.signature(obj)))
        except Exception as e:
            ctx.violation(prop, 'ModifierBoundary', 'sibling-lookup-raises-%s' % type(e).__name__,
                          'looking up / inspecting %s raised %s: %s' % (label, type(e).__name__, e), {'sequence': done}, rp)
            return
        if got != (SIBLING_WANT[kind], SIBLING_WANT[kind]):
            ctx.violation(prop, 'ModifierBoundary', 'sibling-decoration-confused',
                          '%s advertises %s, its own decoration says %s' % (label, got[0], SIBLING_WANT[kind]),
                          {'sequence': done, 'inspect': got[0], 'sigtools': got[1]}, rp)
            return
        # enforced: b by keyword only / a positionally only where the selection says so
        probes = {'by_kw': ((1, 5), {}, True), 'by_po': ((), {'a': 1}, False), 'by_auto': ((1, 5), {}, False), 'stacked': ((), {'a': 1}, False)}
        if kind in probes:
            pa, pk, ok_expected = probes[kind]
            try:
                obj(*pa, **pk)
                ok = True
            except TypeError:
                ok = False
            if kind == 'by_kw':
                ok_expected = True          # (1, 5): a=1, c=5
            if ok != ok_expected:
                ctx.violation(prop, 'ModifierBoundary', 'sibling-decoration-not-enforced',
                              '%s %s the call %r %r, its own decoration says otherwise' % (label, 'accepts' if ok else 'rejects', pa, pk),
                              {'sequence': done}, rp)
                return
    ctx.nontrivial(('siblings', tuple(l for l, _, _ in accesses)))


@core.guarded(None)
def check_bound_decoration(ctx, prop, case):
    """A modifier applied to an already BOUND callable (obj.method, Class.classmethod): admissible selections work like on
    the function without its first parameter, a selection naming a parameter that does not exist raises ValueError."""
    from sigtools import modifiers
    src = ('class H(object):\n    def m(self, a, b=2, c=3): return (a, b, c)\n'
           '    @classmethod\n    def k(cls, a, b=2, c=3): return (a, b, c)\n')
    ns = sigs.compile_module(src, tag='vmodbound')
    H = ns['H']
    bound = H().m if case % 2 == 0 else H.k
    rp = dict(workload='mod-bound', case=case)
    w = {'decorated': 'H().m' if case % 2 == 0 else 'H.k (classmethod)', 'function': 'def m(self, a, b=2, c=3)'}
    ctx.evaluated()
    ctx.count('%s.bound_decorations' % prop)
    for label, deco, want in (("kwoargs('b')", lambda: modifiers.kwoargs('b'), '(a, c=3, *, b=2)'),
                              ("posoargs(end='a')", lambda: modifiers.posoargs(end='a'), '(a, /, b=2, c=3)'),
                              ("kwoargs('zq_unknown')", lambda: modifiers.kwoargs('zq_unknown'), ValueError),
                              ("kwoargs('b', 'zq_unknown')", lambda: modifiers.kwoargs('b', 'zq_unknown'), ValueError),
                              ("posoargs('zq_unknown')", lambda: modifiers.posoargs('zq_unknown'), ValueError),
                              ("kwoargs(start='zq_unknown')", lambda: modifiers.kwoargs(start='zq_unknown'), ValueError)):
        try:
            got = str(inspect.signature(deco()(bound)))
        except ValueError:
            got = ValueError
        except Exception as e:
            got = 'raised %s' % type(e).__name__
        if got != want:
            ctx.violation(prop, 'ModifierBoundary', 'bound-callable-decoration' if want is not ValueError else 'inadmissible-selection-accepted-on-bound-callable',
                          'modifiers.%s applied to %s gives %s, expected %s' % (label, w['decorated'], got, 'ValueError' if want is ValueError else want),
                          dict(w, decorator=label), rp)
            return
    ctx.nontrivial(('bound-decoration', case % 2))


def run_c12(ctx):
    tier = ctx.tier
    rnd = ctx.rng('mod')
    run_siblings(ctx, 'C12')
    idx = 0
    for fparams in function_universe(ctx, tier):
        if ctx.out_of_time('modifier decorations'):
            break
        idx += 1
        if not ctx.mine(idx):
            continue
        fparams = with_meta(rnd, fparams)
        for method in (False, True):
            fp = ((('self', PK, None, None),) + fparams) if method else fparams
            if method and (sigs.has_kind(fparams, PO)):
                fp = (('self', PO, None, None),) + fparams
            for deco, mk, mp, adm in selections(fp, method=method):
                if method and any('posoargs(' in d and 'end=' not in d for d in deco) and adm:
                    # self (a regular parameter) precedes: posoargs(names) is inadmissible on a method
                    adm = admissible_po(fp, mp)
                check_case(ctx, 'C12', fp, deco, mk, mp, adm, method=method)
                if not method and adm and rnd.random() < 0.3:
                    check_case(ctx, 'C12', fp, deco, mk, mp, adm, method=False, reuse=True)
                if not method and adm and len(deco) >= 2:
                    check_inner_survives_stacking(ctx, 'C12', fp, deco)


def run_siblings(ctx, prop):
    rnd = ctx.rng('mod-siblings')
    for k in range({'quick': 40, 'thorough': 2000}[ctx.tier] // max(1, ctx.nshards) + 1):
        check_siblings(ctx, prop, rnd.getrandbits(32))
    for case in (0, 1):
        check_bound_decoration(ctx, prop, case)


def replay(ctx, rec, prop='C12'):
    if rec.get('workload') == 'mod-siblings':
        return check_siblings(ctx, prop, rec['order_seed'])
    if rec.get('workload') == 'mod-bound':
        return check_bound_decoration(ctx, prop, rec['case'])
    if rec.get('workload') == 'mod-inner-survives':
        return check_inner_survives_stacking(ctx, prop, sigs.from_json(rec['fparams']), rec['decorators'])
    check_case(ctx, prop, sigs.from_json(rec['fparams']), rec['decorators'], set(rec['make_kwo']),
               set(rec['make_po']), rec['admissible'], method=rec['method'], reuse=rec.get('reuse', False))

"""C10 -- defaults, annotations, kinds and order of combined parameters."""
import functools
import inspect

from . import sigs, oracle, monitor
from .sigs import PO, PK, VA, KO, VK, KIND_OF
from .sigutil import bparams, show, safe_eq
from .monitor import Monitor
from .mon_alg import replay_alg, all_signatures, _mask_call_info

EMPTY = inspect.Parameter.empty
ANN_FOLD_MECH = 'nary-merge-forgets-annotation-disagreement'
DROP_FOLD_MECH = 'nary-merge-parameter-dropped-and-reintroduced'


def meta_params(sig):
    """Parameter list with literal defaults/annotations (for replay)."""
    out = []
    for p in sig.parameters.values():
        d = None if p.default is EMPTY else (repr(p.default) if isinstance(p.default, (int, str, type(None))) else '0')
        a = None if p.annotation is EMPTY else (repr(p.annotation) if isinstance(p.annotation, (int, str)) else None)
        out.append((p.name, KIND_OF[p.kind], d, a))
    return tuple(out)


def kind_ok(kc, kr):
    """The contributor's kind is kept or made more restrictive."""
    return kc == kr or (kc == PK and kr in (PO, KO))


def positional(sig):
    return [p for p in sig.parameters.values()
            if p.kind in (p.POSITIONAL_ONLY, p.POSITIONAL_OR_KEYWORD)]


def relative_order_kept(result_names, input_names):
    """input_names restricted to result_names appear in the same relative order."""
    pos = {n: i for i, n in enumerate(result_names)}
    last = -1
    for n in input_names:
        if n in pos:
            if pos[n] < last:
                return False
            last = pos[n]
    return True


class MetaMonitor(Monitor):
    points = ('merge', 'embed', 'mask', '_mask')
    prop = 'C10'

    def post(self, point, args, kwargs, ok, value, tok):
        if not ok or not isinstance(value, inspect.Signature):
            return
        if point == 'merge' and all_signatures(args) and len(args) >= 2:
            self.merge(args, value)
        elif point == 'embed' and all_signatures(args) and len(args) >= 2:
            self.embed(args, kwargs, value)
        elif point == 'mask' and args and isinstance(args[0], inspect.Signature):
            self.mask(args, kwargs, value)
        elif point == '_mask' and len(args) >= 8 and args[7] is not None:
            self.partial(args, value)

    def V(self, mech, what, w, rp):
        self.ctx.violation('C10', 'MetaMonitor', mech, what, w, rp)

    # ------------------------------------------------------------- merge
    def merge(self, args, value):
        ctx = self.ctx
        ins = [bparams(s) for s in args]
        ctx.evaluated()
        ctx.count('C10.merge')
        rp = replay_alg('merge', [meta_params(s) for s in args])
        w = {'op': 'merge', 'inputs': [show(s) for s in args], 'result': show(value)}
        consistent = oracle.loosely_role_consistent(ins)
        res_pos = positional(value)
        res_pos_names = [p.name for p in res_pos]
        in_pos = [positional(s) for s in args]
        if not consistent:
            # with one name in two roles 'the input parameters it stands for' is not defined
            ctx.count('C10.merge_inconsistent_roles_skipped')
            return
        ctx.count('C10.merge_consistent')
        for k, s in enumerate(args):
            if not relative_order_kept(res_pos_names, [p.name for p in in_pos[k]]):
                self.V('merge-positional-order', 'positional parameters of input %d appear in another relative order in the result' % k, w, rp)
        # "a kind only changes to the more restrictive form REQUIRED": a positional parameter of the result may only be
        # positional-only if, at its index or a later one, some input has a positional-only parameter, another name,
        # or no named positional parameter at all (positional-only parameters form a prefix)
        # (only judged when every input has as many named positional parameters as the result: a surplus parameter
        # absorbed by another input's *args legitimately restricts everything before it)
        same_length = all(len(in_pos[k]) == len(res_pos) for k in range(len(args)))
        for idx, r in enumerate(res_pos if same_length else ()):
            if r.kind != r.POSITIONAL_ONLY:
                continue
            needed = False
            for j in range(idx, len(res_pos)):
                for k in range(len(args)):
                    if j >= len(in_pos[k]) or in_pos[k][j].kind == r.POSITIONAL_ONLY or in_pos[k][j].name != res_pos[j].name:
                        needed = True
            if not needed:
                self.V('merge-kind-restricted-without-need',
                       'parameter %r is positional-only in the result although every input has a positional-or-keyword parameter of that name there, and of the same names after it' % r.name, w, rp)
                break
        interesting = False
        # star parameters: when the inputs have the same named parameters (names and kinds, position by position) and
        # every one of them has a star parameter of a kind -- whatever it is called on each side -- the result's star
        # parameter of that kind stands for all of them: annotated like the annotated ones agree, otherwise not at all
        named_ = [[(q.name, q.kind) for q in s.parameters.values() if q.kind not in (q.VAR_POSITIONAL, q.VAR_KEYWORD)] for s in args]
        if len(args) >= 2 and all(n_ == named_[0] for n_ in named_[1:]):
            for skind in (inspect.Parameter.VAR_POSITIONAL, inspect.Parameter.VAR_KEYWORD):
                stars_ = [[q for q in s.parameters.values() if q.kind == skind] for s in args]
                if not all(stars_):
                    continue
                rs = [q for q in value.parameters.values() if q.kind == skind]
                if not rs:
                    continue
                ctx.count('C10.star_parameter_annotations_judged')
                anns = [q[0].annotation for q in stars_ if q[0].annotation is not EMPTY]
                want = anns[0] if anns and all(safe_eq(a, anns[0]) for a in anns[1:]) else EMPTY
                got = rs[0].annotation
                if not (got is want or (want is not EMPTY and got is not EMPTY and safe_eq(got, want))):
                    if len(args) >= 3 and len(anns) >= 2 and want is EMPTY and got is not EMPTY:
                        ctx.violation('C10', 'MetaMonitor', ANN_FOLD_MECH,
                                      'n-ary merge annotates %r with %r although the annotated contributors disagree' % (rs[0].name, got), w, rp)
                    else:
                        self.V('merge-star-annotation', 'annotation of the star parameter %r is %r, expected %s' % (
                            rs[0].name, got, 'none' if want is EMPTY else repr(want)), w, rp)
        for r in value.parameters.values():
            if r.kind in (r.VAR_POSITIONAL, r.VAR_KEYWORD):
                continue
            ridx = res_pos_names.index(r.name) if r.name in res_pos_names else None
            # the input parameters r stands for = those that receive the argument the
            # way r passes it: positionally at r's index, or by keyword under r's name
            contributors = []
            for k, s in enumerate(args):
                c = None
                if ridx is not None and ridx < len(in_pos[k]):
                    c = in_pos[k][ridx]
                if c is None and r.kind != r.POSITIONAL_ONLY:
                    d = s.parameters.get(r.name)
                    if d is not None and d.kind in (d.POSITIONAL_OR_KEYWORD, d.KEYWORD_ONLY):
                        c = d
                if c is not None:
                    contributors.append(c)
            if not contributors:
                self.V('merge-parameter-from-nowhere', 'result parameter %r stands for no input parameter' % r.name, w, rp)
                continue
            if len(contributors) > 1:
                interesting = True
            kr = KIND_OF[r.kind]
            for c in contributors:
                if not kind_ok(KIND_OF[c.kind], kr):
                    self.V('merge-kind-relaxed', 'parameter %r is %s in the result but %s in an input' % (
                        r.name, kr, KIND_OF[c.kind]), w, rp)
                    break
            all_optional = all(c.default is not EMPTY for c in contributors)
            if r.default is not EMPTY:
                if not all_optional:
                    self.V('merge-optional-although-required-contributor',
                           'parameter %r is optional in the result although an input parameter it stands for is required' % r.name, w, rp)
                else:
                    first = contributors[0].default
                    same = all(safe_eq(c.default, first) for c in contributors[1:])
                    if same and not safe_eq(r.default, first):
                        self.V('merge-default-not-common', 'default of %r is %r although all contributors have %r' % (
                            r.name, r.default, first), w, rp)
                    if not same and r.default is not None:
                        if self.dropped_in_fold(args, r.name):
                            ctx.violation('C10', 'MetaMonitor', DROP_FOLD_MECH,
                                          'n-ary merge shows default %r for %r although the contributors differ: the parameter was dropped by an intermediate step and re-introduced by a later input' % (r.default, r.name), w, rp)
                        else:
                            self.V('merge-default-not-none', 'default of %r is %r although the contributors differ' % (
                                r.name, r.default), w, rp)
            anns = [c.annotation for c in contributors if c.annotation is not EMPTY]
            if not anns:
                want = EMPTY
            elif all(safe_eq(a, anns[0]) for a in anns[1:]):
                want = anns[0]
            else:
                want = EMPTY
            if not (r.annotation is want or (want is not EMPTY and r.annotation is not EMPTY
                                             and safe_eq(r.annotation, want))):
                if len(args) >= 3 and len(anns) >= 2 and want is EMPTY and r.annotation is not EMPTY:
                    ctx.violation('C10', 'MetaMonitor', ANN_FOLD_MECH,
                                  'n-ary merge annotates %r with %r although the annotated contributors disagree' % (r.name, r.annotation), w, rp)
                elif self.dropped_in_fold(args, r.name):
                    # same mechanism as for defaults: the metadata of the result parameter is that of the
                    # later input alone, whatever the earlier contributors said
                    ctx.violation('C10', 'MetaMonitor', DROP_FOLD_MECH,
                                  'n-ary merge shows annotation %r for %r, not what the contributors agree on: the parameter was dropped by an intermediate step and re-introduced by a later input' % (r.annotation, r.name), w, rp)
                else:
                    self.V('merge-annotation', 'annotation of %r is %r, expected %s' % (
                        r.name, r.annotation, 'none' if want is EMPTY else repr(want)), w, rp)
        if interesting:
            ctx.nontrivial(('merge', tuple(meta_params(s) for s in args)))
            ctx.sample('merge-meta', lambda: w, limit=3)

    def dropped_in_fold(self, args, name):
        """True iff `name` is a parameter of an earlier input but absent from an
        intermediate result of the left fold merge(merge(s0, s1), ...), i.e. the
        fold dropped it (optional, not expressible) before a later input brought
        the name back."""
        if len(args) < 3:
            return False
        orig = monitor.original('merge')
        seen = name in args[0].parameters
        acc = args[0]
        for s in args[1:-1]:
            try:
                acc = orig(acc, s)
            except ValueError:
                return False
            seen = seen or name in s.parameters
            if seen and name not in acc.parameters:
                return True
        return False

    # ------------------------------------------------------------- embed
    def embed(self, args, kwargs, value):
        ctx = self.ctx
        ctx.evaluated()
        ctx.count('C10.embed')
        rp = replay_alg('embed', [meta_params(s) for s in args],
                        use_varargs=bool(kwargs.get('use_varargs', True)),
                        use_varkwargs=bool(kwargs.get('use_varkwargs', True)))
        w = {'op': 'embed', 'inputs': [show(s) for s in args], 'kwargs': rp['kwargs'], 'result': show(value)}
        origin = {}
        declared = {}
        for depth, s in enumerate(args):
            for p in s.parameters.values():
                if p.kind in (p.VAR_POSITIONAL, p.VAR_KEYWORD):
                    continue
                origin.setdefault(p.name, (depth, p))
                declared[p.name] = declared.get(p.name, 0) + 1
        if any(v > 1 for v in declared.values()):
            # a name declared by two inputs belongs to whichever survives (the other was
            # optional and dropped): origin by name is ambiguous, skip the case
            ctx.count('C10.embed_shared_names_skipped')
            return
        res = list(value.parameters.values())
        named = [r for r in res if r.kind not in (r.VAR_POSITIONAL, r.VAR_KEYWORD)]
        if any(r.name not in origin for r in named):
            self.V('embed-parameter-from-nowhere', 'a result parameter comes from no input', w, rp)
            return
        ctx.nontrivial(('embed', tuple(meta_params(s) for s in args), tuple(sorted(rp['kwargs'].items()))))
        ctx.sample('embed-meta', lambda: w, limit=3)
        # outer before inner within each kind
        for kind in (inspect.Parameter.POSITIONAL_ONLY, inspect.Parameter.POSITIONAL_OR_KEYWORD,
                     inspect.Parameter.KEYWORD_ONLY):
            depths = [origin[r.name][0] for r in named if r.kind == kind]
            if depths != sorted(depths):
                self.V('embed-order-within-kind', 'outer parameters do not precede inner ones among the %s parameters' % KIND_OF[kind], w, rp)
        # relative order of each input's positional parameters
        res_pos_names = [r.name for r in named if r.kind in (r.POSITIONAL_ONLY, r.POSITIONAL_OR_KEYWORD)]
        for k, s in enumerate(args):
            if not relative_order_kept(res_pos_names, [p.name for p in positional(s)]):
                self.V('embed-positional-order', 'positional parameters of input %d are reordered' % k, w, rp)
        for idx, r in enumerate(res):
            if r.name not in origin or r.kind in (r.VAR_POSITIONAL, r.VAR_KEYWORD):
                continue
            depth, c = origin[r.name]
            if not kind_ok(KIND_OF[c.kind], KIND_OF[r.kind]):
                self.V('embed-kind-relaxed', 'parameter %r is %s in the result but %s in its input' % (
                    r.name, KIND_OF[r.kind], KIND_OF[c.kind]), w, rp)
            if not (r.annotation is c.annotation or safe_eq(r.annotation, c.annotation)):
                self.V('embed-annotation-changed', 'annotation of %r changed from %r to %r' % (
                    r.name, c.annotation, r.annotation), w, rp)
            if r.default is not EMPTY:
                if c.default is EMPTY:
                    self.V('embed-optional-although-required', 'parameter %r became optional' % r.name, w, rp)
                elif not (r.default is c.default or safe_eq(r.default, c.default)):
                    self.V('embed-default-changed', 'default of %r changed from %r to %r' % (
                        r.name, c.default, r.default), w, rp)
            elif c.default is not EMPTY:
                # a default was dropped: allowed for an outer parameter followed by a
                # required positional parameter of an inner signature
                follows = any(
                    q.name in origin and origin[q.name][0] > depth and q.default is EMPTY
                    and q.kind in (q.POSITIONAL_ONLY, q.POSITIONAL_OR_KEYWORD)
                    for q in res[idx + 1:])
                if not follows:
                    self.V('embed-default-dropped', 'default of %r was dropped although no required inner positional parameter follows it' % r.name, w, rp)
                else:
                    ctx.count('C10.embed_default_dropped_legitimately')

    # -------------------------------------------------------------- mask
    def mask(self, args, kwargs, value):
        ctx = self.ctx
        sig = args[0]
        ctx.evaluated()
        ctx.count('C10.mask')
        n = args[1] if len(args) > 1 else 0
        names = tuple(args[2:])
        flags = {k: bool(kwargs.get(k, False)) for k in ('hide_args', 'hide_kwargs', 'hide_varargs', 'hide_varkwargs')}
        rp = replay_alg('mask', [meta_params(sig)], n=n, names=list(names), **flags)
        w = {'op': 'mask', 'sig': show(sig), 'n': n, 'names': list(names),
             'flags': [k for k, v in flags.items() if v], 'result': show(value)}
        src_names = list(sig.parameters)
        res_names = list(value.parameters)
        if not relative_order_kept(
                [r.name for r in positional(value)], [p.name for p in positional(sig)]):
            self.V('mask-positional-order', 'mask reordered positional parameters', w, rp)
        for r in value.parameters.values():
            c = sig.parameters.get(r.name)
            if c is None:
                self.V('mask-parameter-from-nowhere', 'mask result has a parameter %r the input lacks' % r.name, w, rp)
                continue
            kc, kr = KIND_OF[c.kind], KIND_OF[r.kind]
            if not (kc == kr or (kc == PK and kr == KO)):
                self.V('mask-kind', 'mask changed the kind of %r from %s to %s' % (r.name, kc, kr), w, rp)
            if not (r.default is c.default or safe_eq(r.default, c.default)):
                self.V('mask-default-changed', 'mask changed the default of %r' % r.name, w, rp)
            if not (r.annotation is c.annotation or safe_eq(r.annotation, c.annotation)):
                self.V('mask-annotation-changed', 'mask changed the annotation of %r' % r.name, w, rp)
        if len(res_names) != len(src_names):
            ctx.nontrivial(('mask', meta_params(sig), n, names, tuple(sorted(flags.items()))))
            ctx.sample('mask-meta', lambda: w, limit=2)

    # ----------------------------------------------------------- partial
    def partial(self, args, value):
        ctx = self.ctx
        sig, n, named, pobj = args[0], args[1], args[6], args[7]
        ctx.evaluated()
        ctx.count('C10.partial')
        w = {'op': 'partial retrieval', 'func': show(sig), 'bound_positionals': n,
             'bound_keywords': {k: repr(v) for k, v in (named or {}).items()}, 'result': show(value)}
        rp = dict(workload='alg', op='partial', inputs=[sigs.to_json(meta_params(sig))],
                  kwargs={'n': n, 'keywords': sorted(named or {})})
        if named:
            ctx.nontrivial(('partial', meta_params(sig), n, tuple(sorted(named))))
            ctx.sample('partial-meta', lambda: w, limit=2)
        for k, v in (named or {}).items():
            r = value.parameters.get(k)
            if r is None:
                self.V('partial-keyword-missing', 'keyword %r bound by the partial is not a parameter of the result' % k, w, rp)
            elif r.kind != r.KEYWORD_ONLY:
                self.V('partial-keyword-kind', 'keyword %r bound by the partial is %s, not keyword-only' % (k, KIND_OF[r.kind]), w, rp)
            elif not (r.default is v or safe_eq(r.default, v)):
                self.V('partial-keyword-default', 'default of %r is %r, not the bound value %r' % (k, r.default, v), w, rp)
            else:
                # the bound keyword still stands for the parameter of that name: it keeps what was annotated there
                c = sig.parameters.get(k)
                # (only where the keyword really binds that parameter: a keyword spelled like *args / **kwargs / a
                # positional-only parameter travels through **kwargs and makes a NEW parameter)
                if c is not None and c.kind in (c.POSITIONAL_OR_KEYWORD, c.KEYWORD_ONLY) and \
                        not (r.annotation is c.annotation or safe_eq(r.annotation, c.annotation)):
                    self.V('partial-keyword-annotation-changed', 'binding %r by keyword changed its annotation from %r to %r' % (
                        k, c.annotation, r.annotation), w, rp)
        for r in value.parameters.values():
            c = sig.parameters.get(r.name)
            if c is None or r.name in (named or {}):
                continue
            kc, kr = KIND_OF[c.kind], KIND_OF[r.kind]
            if not (kc == kr or (kc == PK and kr == KO)):
                self.V('partial-kind', 'partial retrieval changed the kind of %r from %s to %s' % (r.name, kc, kr), w, rp)
            if not (r.default is c.default or safe_eq(r.default, c.default)):
                self.V('partial-default-changed', 'partial retrieval changed the default of %r' % r.name, w, rp)
            if not (r.annotation is c.annotation or safe_eq(r.annotation, c.annotation)):
                self.V('partial-annotation-changed', 'partial retrieval changed the annotation of %r' % r.name, w, rp)

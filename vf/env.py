"""Bootstrap: make sure the sigtools under test is the tree we were told to verify.

Every check imports this module first.  It puts VERIF_REPO (default /repo) in
front of sys.path, imports sigtools *from the working tree* (no byte-code is
written), and refuses to go on (verdict: inconclusive) when the imported
package lives anywhere else.
"""
import os
import sys
import warnings

sys.dont_write_bytecode = True
os.environ.setdefault('PYTHONDONTWRITEBYTECODE', '1')

VERIF_DIR = os.path.dirname(os.path.dirname(os.path.abspath(__file__)))
REPO = os.path.realpath(os.environ.get('VERIF_REPO', '/repo'))
# where evidence/, replay/ and .shards/ are written: /verif itself, except for the mutation runs of
# tools/seeded.py, which must not overwrite the evidence of the real tree
OUT_DIR = os.environ.get('VERIF_OUT') or VERIF_DIR
GUARD = 'SIGTOOLS_VERIF'        # reserved guard name (MANIFEST.hooks); no hook needs it


class Inconclusive(Exception):
    """Raised when a run cannot decide anything (wrong tree, crashed shard, ...)."""


def bootstrap():
    if REPO not in sys.path[:1]:
        sys.path.insert(0, REPO)
    # generated code and downgraded inputs emit DeprecationWarnings by design;
    # monitors that care record them explicitly with catch_warnings.
    warnings.simplefilter('ignore')
    import sigtools
    here = os.path.realpath(os.path.dirname(sigtools.__file__))
    want = os.path.join(REPO, 'sigtools')
    if here != want:
        raise Inconclusive(
            'sigtools imported from %s, not from the tree under test %s' % (here, want))
    # import every public module now so that the binding sweep sees them all
    import sigtools.signatures, sigtools.specifiers, sigtools.modifiers  # noqa
    import sigtools.wrappers, sigtools.support  # noqa
    import sigtools._signatures, sigtools._specifiers, sigtools._autoforwards, sigtools._util  # noqa
    return sigtools


SIGDIR = os.path.join(REPO, 'sigtools')


def in_sigtools(filename):
    """True for code that belongs to the library under test (its tests excluded)."""
    return filename.startswith(SIGDIR + os.sep) and (os.sep + 'tests' + os.sep) not in filename

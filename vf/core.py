"""Run context, verdicts, evidence, known findings, sharding."""
import collections
import hashlib
import json
import os
import pickle
import random
import subprocess
import sys
import time

from . import env

EXIT_HELD, EXIT_VIOLATED, EXIT_INCONCLUSIVE = 0, 1, 2
MAX_VIOLATION_LINES = 20


def stable_hash(obj):
    return int.from_bytes(hashlib.blake2b(repr(obj).encode(), digest_size=8).digest(), 'big')


class Ctx(object):
    """Everything one run (or one shard of a run) accumulates."""

    def __init__(self, prop, tier, seed, shard=0, nshards=1, budget_s=None):
        self.prop = prop
        self.tier = tier
        self.seed = seed
        self.shard = shard
        self.nshards = nshards
        self.t0 = time.time()
        # budgets are CPU seconds of this process: on a loaded machine a run takes longer on the wall
        # but does the same work (a wall-clock deadline silently drops the later workloads of a check,
        # and with them what they would have detected).  A generous wall-clock limit remains as a backstop.
        self.deadline = self.clock() + budget_s if budget_s else None
        self.wall_deadline = self.t0 + 5 * budget_s + 60 if budget_s else None
        self.counters = collections.Counter()
        self.evaluations = 0
        self.distinct = set()          # stable hashes of distinct non-trivial cases
        self.samples = []
        self.sample_counts = {}
        self.violations = []           # dicts: prop, monitor, mech, what, witness, replay
        self.violation_mechs = collections.Counter()
        self.extra = {}                # free-form evidence (crossings per scenario, ...)
        self.exhaustive = {}
        self.shortened = []
        self.floors = {}               # counter name -> minimum for a conclusive run
        self.inconclusive = []

    # -- randomness: pure function of (seed, shard, label)
    def rng(self, label=''):
        return random.Random(stable_hash((self.seed, self.shard, label)))

    def mine(self, index):
        """Round-robin ownership of enumerated cases among shards."""
        return index % self.nshards == self.shard

    @staticmethod
    def clock():
        return time.process_time()

    def out_of_time(self, label=None):
        if self.deadline is not None and (self.clock() > self.deadline or time.time() > self.wall_deadline):
            if label and label not in self.shortened:
                self.shortened.append(label)
            return True
        return False

    # -- bookkeeping used by monitors
    def count(self, name, n=1):
        self.counters[name] += n

    def evaluated(self, n=1):
        self.evaluations += n

    def nontrivial(self, key):
        self.distinct.add(stable_hash(key))

    def sample(self, kind, case, limit=3):
        """Keep up to `limit` written-out cases per kind, spread over the run
        (the 1st, 40th, 1600th, ... case of that kind) so that they are not
        all the degenerate first elements of an enumeration."""
        n = self.sample_counts[kind] = self.sample_counts.get(kind, 0) + 1
        have = [s for s in self.samples if s.get('kind') == kind]
        if len(have) >= limit:
            return
        if n == 40 ** len(have):
            if callable(case):
                case = case()
            self.samples.append({'kind': kind, 'case': case})

    def floor(self, counter, minimum):
        self.floors[counter] = minimum

    def violation(self, prop, monitor, mech, what, witness, replay):
        """Record a refuting observation.  `mech` is a short mechanism key used
        for de-duplication and for matching against known findings."""
        self.violation_mechs[(prop, mech)] += 1
        if sum(1 for v in self.violations if v['prop'] == prop and v['mech'] == mech) >= 3:
            return
        self.violations.append(dict(prop=prop, monitor=monitor, mech=mech, what=what,
                                    witness=witness, replay=replay))

    # -- (de)serialisation for shards
    def dump(self, path):
        from . import monitor
        data = dict(
            counters=dict(self.counters), evaluations=self.evaluations,
            distinct=self.distinct, samples=self.samples, violations=self.violations,
            violation_mechs=dict(self.violation_mechs), extra=self.extra,
            exhaustive=self.exhaustive, shortened=self.shortened, floors=self.floors,
            inconclusive=self.inconclusive, calls=dict(monitor.CALLS),
            internal=monitor.INTERNAL_ERRORS[:5], n_internal=len(monitor.INTERNAL_ERRORS),
            sweep=monitor.sweep_report(), wall=time.time() - self.t0)
        with open(path, 'wb') as f:
            pickle.dump(data, f)

    def absorb(self, data):
        self.counters.update(data['counters'])
        self.evaluations += data['evaluations']
        self.distinct |= data['distinct']
        for s in data['samples']:
            if len([1 for t in self.samples if t.get('kind') == s['kind']]) < 3:
                self.samples.append(s)
        for v in data['violations']:
            if sum(1 for w in self.violations
                   if w['prop'] == v['prop'] and w['mech'] == v['mech']) < 3:
                self.violations.append(v)
        self.violation_mechs.update(data['violation_mechs'])
        for k, v in data['extra'].items():
            if isinstance(v, (int, float)) and isinstance(self.extra.get(k, 0), (int, float)):
                self.extra[k] = self.extra.get(k, 0) + v
            elif isinstance(v, dict):
                d = self.extra.setdefault(k, {})
                for kk, vv in v.items():
                    if isinstance(vv, (int, float)) and isinstance(d.get(kk, 0), (int, float)):
                        d[kk] = d.get(kk, 0) + vv
                    else:
                        d.setdefault(kk, vv)
            elif isinstance(v, list):
                self.extra.setdefault(k, [])
                for item in v:
                    if item not in self.extra[k] and len(self.extra[k]) < 50:
                        self.extra[k].append(item)
            else:
                self.extra.setdefault(k, v)
        for k, v in data['exhaustive'].items():
            self.exhaustive[k] = self.exhaustive.get(k, True) and v
        for s in data['shortened']:
            if s not in self.shortened:
                self.shortened.append(s)
        self.floors.update(data['floors'])
        self.inconclusive.extend(data['inconclusive'])


def run_slices(ctx, parts):
    """parts = [(weight, callable), ...]: every workload of a check gets its share of what is left of
    the budget (unused time rolls over to the later ones), so that none is starved by the ones
    before it."""
    end = ctx.deadline
    for k, (weight, fn) in enumerate(parts):
        if end is not None:
            rest = float(sum(x[0] for x in parts[k:]))
            ctx.deadline = ctx.clock() + max(0.5, (end - ctx.clock()) * weight / rest)
        try:
            fn()
        finally:
            ctx.deadline = end


# ------------------------------------------------------------ case guard

def guarded(replay_of=None):
    """Decorator for the per-case functions of the boundary workloads (first argument: ctx).
    A case is a client of sigtools: it retrieves, calls, compares.  If an exception that the case
    does not itself expect escapes from *inside sigtools* (the innermost sigtools frame is named
    in the witness), the client did not get the answer the property promises: recorded as a
    violation of the property under check, mechanism 'unexpected-<Type>-from-sigtools'.  An
    exception that never passed through sigtools code is a bug of the harness: it makes the run
    inconclusive (never a violation)."""
    import functools
    import traceback

    def deco(fn):
        @functools.wraps(fn)
        def wrapper(ctx, *a, **k):
            armed = _arm_runaway_guard()
            try:
                return fn(ctx, *a, **k)
            except env.Inconclusive:
                raise
            except CaseRunsAway as e:
                rp = None
                if replay_of is not None:
                    try:
                        rp = replay_of(*a, **k)
                    except Exception:
                        rp = None
                if e.args and e.args[0]:
                    ctx.violation(ctx.prop, 'CaseGuard', 'case-does-not-terminate-inside-sigtools',
                                  'the case %s used %d CPU seconds (cases take milliseconds) and was last seen inside sigtools (%s): it does not terminate' % (
                                      fn.__name__, RUNAWAY_CPU_SECONDS, e.args[0]),
                                  {'case': fn.__name__, 'arguments': repr(a)[:600], 'where': e.args[0]},
                                  rp or dict(workload='case', function=fn.__name__, arguments=repr(a)[:600]))
                else:
                    ctx.inconclusive.append('case %s used %d CPU seconds outside sigtools' % (fn.__name__, RUNAWAY_CPU_SECONDS))
                # (more of the same would only run into the shard's backstop: what was recorded is handed in now)
                ctx.deadline = ctx.clock() - 1
                return None
            except Exception as e:
                tb = traceback.extract_tb(e.__traceback__)
                inside = [fr for fr in tb if env.in_sigtools(fr.filename)]
                if inside:
                    fr = inside[-1]
                    rp = None
                    if replay_of is not None:
                        try:
                            rp = replay_of(*a, **k)
                        except Exception:
                            rp = None
                    ctx.violation(ctx.prop, 'CaseGuard', 'unexpected-%s-from-sigtools' % type(e).__name__,
                                  '%s raised inside sigtools (%s:%d in %s) while the case %s was using it: %s' % (
                                      type(e).__name__, os.path.basename(fr.filename), fr.lineno, fr.name,
                                      fn.__name__, str(e)[:200]),
                                  {'case': fn.__name__, 'arguments': repr(a)[:600],
                                   'traceback_tail': [('%s:%d %s' % (os.path.basename(f.filename), f.lineno, f.name)) for f in tb[-6:]]},
                                  rp or dict(workload='case', function=fn.__name__, arguments=repr(a)[:600]))
                    return None
                from . import monitor
                monitor.INTERNAL_ERRORS.append((fn.__name__, 'CaseGuard', traceback.format_exc()))
                return None
            finally:
                if armed:
                    _disarm_runaway_guard()
        return wrapper
    return deco


# A case that never comes back (a loop that follows a chain which leads back to itself, ...) would otherwise only
# be ended by the shard's wall-clock backstop, as an inconclusive run.  The guard counts the CPU time of the process
# itself (ITIMER_VIRTUAL: not inflated by other load), four orders of magnitude above what a case takes.
RUNAWAY_CPU_SECONDS = 90


class CaseRunsAway(BaseException):
    pass


def _runaway_handler(signum, frame):
    where = None
    f = frame
    while f is not None:
        if env.in_sigtools(f.f_code.co_filename):
            where = '%s:%d in %s' % (os.path.basename(f.f_code.co_filename), f.f_lineno, f.f_code.co_name)
            break
        f = f.f_back
    raise CaseRunsAway(where)


_guard_depth = [0]


def _arm_runaway_guard():
    import signal
    import threading
    if threading.current_thread() is not threading.main_thread() or _guard_depth[0]:
        return False
    try:
        signal.signal(signal.SIGVTALRM, _runaway_handler)
        signal.setitimer(signal.ITIMER_VIRTUAL, RUNAWAY_CPU_SECONDS)
    except (ValueError, OSError, AttributeError):
        return False
    _guard_depth[0] = 1
    return True


def _disarm_runaway_guard():
    import signal
    _guard_depth[0] = 0
    try:
        signal.setitimer(signal.ITIMER_VIRTUAL, 0)
    except (ValueError, OSError):
        pass


# ------------------------------------------------------------ known findings

def load_findings():
    path = os.path.join(env.VERIF_DIR, 'known_findings.json')
    with open(path) as f:
        data = json.load(f)
    return data['findings']


def classify(ctx, prop):
    """Split recorded violations of `prop` into known findings and new ones.
    A violation matches an open finding iff its mechanism key equals the
    finding's key (keys are decided by structural predicates in the monitors,
    never by case hashes or random values).  Read-only."""
    open_keys = {}
    for f in load_findings():
        if f.get('status') == 'open' and f['property'] == prop:
            open_keys[f['key']] = f
    known = collections.OrderedDict()
    new = []
    for v in ctx.violations:
        if v['prop'] != prop:
            continue
        f = open_keys.get(v['mech'])
        if f is not None:
            known.setdefault(v['mech'], (f, ctx.violation_mechs[(prop, v['mech'])], v))
        else:
            new.append(v)
    return known, new


# ------------------------------------------------------------------ evidence

def write_replay(v, idx):
    os.makedirs(os.path.join(env.OUT_DIR, 'replay'), exist_ok=True)
    name = '%s-%s-%d.json' % (v['prop'], ''.join(c if c.isalnum() else '_' for c in v['mech'])[:60], idx)
    path = os.path.join(env.OUT_DIR, 'replay', name)
    with open(path, 'w') as f:
        json.dump(dict(property=v['prop'], monitor=v['monitor'], mechanism=v['mech'],
                       what=v['what'], witness=v['witness'], replay=v['replay']),
                  f, indent=1, default=repr)
    return path


def write_evidence(ctx, prop, level, rule, assumptions, n_new, known, verdict, calls=None,
                   sweep=None):
    cov = {
        'evaluations': int(ctx.evaluations),
        'distinct_nontrivial': len(ctx.distinct),
        'rule': rule,
        'samples': ctx.samples[:24] or [{'kind': 'none', 'case': 'no case was explored by this run (verdict %s)' % verdict}],
        'counters': dict(sorted(ctx.counters.items())),
        'verdict': verdict,
        'known_findings_observed': {k: c for k, (f, c, v) in known.items()},
        'shards': ctx.nshards,
    }
    if ctx.exhaustive:
        cov['exhaustive_subspaces'] = ctx.exhaustive
        cov['exhaustive'] = bool(ctx.exhaustive) and all(ctx.exhaustive.values())
    if ctx.shortened:
        cov['shortened_by_deadline'] = ctx.shortened
    if calls:
        cov['monitored_calls_per_attach_point'] = calls
    if sweep:
        cov['binding_sweep'] = sweep
    cov.update(ctx.extra)
    ev = {
        'property_id': prop,
        'tier': ctx.tier,
        'seed': int(ctx.seed),
        'level': level,
        'coverage': cov,
        'assumptions': assumptions,
        'wall_s': round(time.time() - ctx.t0, 2),
        'violations': int(n_new),
    }
    os.makedirs(os.path.join(env.OUT_DIR, 'evidence'), exist_ok=True)
    path = os.path.join(env.OUT_DIR, 'evidence', prop + '.json')
    tmp = path + '.tmp'
    with open(tmp, 'w') as f:
        json.dump(ev, f, indent=1, default=repr)
    os.replace(tmp, path)
    return path


# ------------------------------------------------------------------ sharding

def run_shards(prop, tier, seed, nshards, timeout_s, extra_env=None):
    """Run `nshards` copies of check.py --shard i/n; returns list of loaded dumps
    and a list of failures (shard crashed / timed out => inconclusive)."""
    sh_dir = os.path.join(env.OUT_DIR, '.shards')
    os.makedirs(sh_dir, exist_ok=True)
    procs = []
    for i in range(nshards):
        out = os.path.join(sh_dir, '%s-%s-%d-%d.pkl' % (prop, tier, os.getpid(), i))
        if os.path.exists(out):
            os.unlink(out)
        e = dict(os.environ)
        e['VERIF_SEED'] = str(seed)
        e.setdefault('PYTHONHASHSEED', '0')
        if extra_env:
            e.update(extra_env)
        cmd = [sys.executable, os.path.join(env.VERIF_DIR, 'check.py'), '--property', prop,
               '--tier', tier, '--shard', '%d/%d' % (i, nshards), '--shard-out', out]
        log = open(out + '.log', 'w')
        procs.append((i, out, log, subprocess.Popen(cmd, env=e, stdout=log, stderr=subprocess.STDOUT,
                                                     cwd=env.VERIF_DIR)))
    dumps, failures = [], []
    t_end = time.time() + timeout_s
    for i, out, log, p in procs:
        try:
            p.wait(timeout=max(1, t_end - time.time()))
        except subprocess.TimeoutExpired:
            p.kill()
            p.wait()
            failures.append('shard %d timed out' % i)
        log.close()
        if p.returncode not in (0,):
            tail = ''
            try:
                tail = open(out + '.log').read()[-400:]
            except OSError:
                pass
            failures.append('shard %d exited %s: %s' % (i, p.returncode, tail))
        if os.path.exists(out):
            try:
                with open(out, 'rb') as f:
                    dumps.append(pickle.load(f))
            except Exception as ex:
                failures.append('shard %d output unreadable: %r' % (i, ex))
            os.unlink(out)
        elif p.returncode == 0:
            failures.append('shard %d wrote nothing' % i)
        try:
            os.unlink(out + '.log')
        except OSError:
            pass
    return dumps, failures

"""W-ANN (C11): PEP 563 twins.  Every operation is run on the same sources
compiled eagerly and with `from __future__ import annotations`, with
per-function globals in which one spelling may denote different objects and
two spellings the same object."""
import functools
import inspect
import random

from . import sigs, oracle
from . import core
from .sigs import PO, PK, VA, KO, VK, KIND_OF
from .sigutil import show

EMPTY = inspect.Parameter.empty
SPELLING_MECH = 'postponed-annotations-conciled-by-spelling'


class Tag(object):
    """Distinct annotation objects with a readable repr."""
    def __init__(self, name):
        self.name = name

    def __repr__(self):
        return self.name


T1, T2, T3 = Tag('T1'), Tag('T2'), Tag('T3')


class EqStr(str):
    """instances compare and hash like the string they hold, yet each is an object of its own"""


EQ_A, EQ_B = EqStr('same text'), EqStr('same text')


class Box(object):
    """Box[x]: one object per x, like the cached generic aliases of typing (an annotation that is an expression,
    not a bare name: its postponed spelling is a string no two code objects share)."""
    _made = {}

    def __class_getitem__(cls, item):
        return cls._made.setdefault(id(item), Tag('Box[%r]' % (item,)))


CONFIGS = {
    'shared':  ({'T': T1, 'U': T2, 'Box': Box}, {'T': T1, 'U': T2, 'Box': Box}),
    'swapped': ({'T': T1, 'U': T2, 'Box': Box}, {'T': T2, 'U': T1, 'Box': Box}),
    'aliased': ({'T': T1, 'U': T1, 'Box': Box}, {'T': T1, 'U': T1, 'Box': Box}),
    'mixed':   ({'T': T1, 'U': T2, 'Box': Box}, {'T': T3, 'U': T1, 'Box': Box}),
}
# bare names; an expression; string literals (written as annotations they denote the string itself -- also under
# PEP 563, where the stored text is the literal's source -- whether or not a global of that name exists)
SPELLINGS = ('T', 'U', 'T', 'U', 'Box[T]', 'Box[U]', "'T'", "'Zed'")
OPS = ['merge', 'embed', 'forwards', 'mask', 'partial', 'modifier', 'discovery', 'discovery-method', 'merge3']


def V(ctx, mech, what, w, rp):
    ctx.violation('C11', 'AnnotationTwins', mech, what, w, rp)


def annotate_params(rnd, params, p=0.6):
    out = []
    for n, k, d, a in params:
        if rnd.random() < p:
            a = rnd.choice(SPELLINGS)
        out.append((n, k, d, a))
    return tuple(out), (rnd.choice(SPELLINGS + ('None', 'None')) if rnd.random() < 0.5 else None)


def build(params, ret, globs, future, name, body='return None', prefix=''):
    return sigs.make_func(params, name=name, globs=dict(globs), future=future, ret=ret, body=body,
                          register=True, prefix=prefix)


def denoted(spelling, globs):
    return EMPTY if spelling is None else eval(spelling, dict(globs))


def check_inputs(ctx, f, params, ret, globs, w, rp, label):
    """source_value() of every annotation of a retrieved signature is the object
    the spelling denotes in the defining function's globals."""
    import sigtools
    for lab, retr in (('sigtools.signature', sigtools.signature),):
        s = retr(f)
        ctx.count('C11.input_signatures')
        for (n, k, d, a) in params:
            got = s.parameters[n].upgraded_annotation.source_value()
            ctx.count('C11.source_values_checked')
            if got is not denoted(a, globs):
                V(ctx, 'source-value-wrong-on-retrieval', '%s: source_value() of %r is %r, the annotation %r denotes %r where it was written' % (
                    label, n, got, a, denoted(a, globs)), w, rp)
        got = s.upgraded_return_annotation.source_value()
        if got is not denoted(ret, globs):
            V(ctx, 'return-source-value-wrong-on-retrieval', '%s: source_value() of the return annotation is %r, expected %r' % (
                label, got, denoted(ret, globs)), w, rp)
    return s


def run_op(op, fs, rnd_state, S):
    """Apply `op` to the functions fs = [f1, f2, f3]; rnd_state carries the
    op parameters so that both twins get the same ones."""
    import sigtools
    from sigtools import modifiers
    s = [sigtools.signature(f) for f in fs]
    n, names, deco = rnd_state['n'], rnd_state['names'], rnd_state['deco']
    if op == 'merge':
        return S.merge(s[0], s[1])
    if op == 'merge3':
        return S.merge(s[0], s[1], s[2])
    if op == 'embed':
        return S.embed(s[0], s[1])
    if op == 'forwards':
        return S.forwards(s[0], s[1], n, *names)
    if op == 'mask':
        return S.mask(s[1], n, *names)
    if op == 'partial':
        return sigtools.signature(functools.partial(fs[1], *([0] * n), **{k: 0 for k in names}))
    raise KeyError(op)


@core.guarded(lambda case_seed: dict(workload='ann', case_seed=case_seed))
def check_case(ctx, case_seed):
    import sigtools
    from sigtools import signatures as S, modifiers
    rnd = random.Random(case_seed)
    op = rnd.choice(OPS)
    cfg = rnd.choice(sorted(CONFIGS))
    g1, g2 = CONFIGS[cfg]
    outers = [o for o in sigs.U(('a', 'b'), 2, stars=sigs.STARS2[:1]) if sigs.has_kind(o, VA) and sigs.has_kind(o, VK)] \
        if op in ('embed', 'forwards', 'discovery', 'discovery-method') else sigs.U(('a', 'b', 'x'), 2, stars=sigs.STARS2[:1])
    inners = sigs.U(('x', 'y', 'a'), 2, stars=sigs.STARS2[:1]) if op in ('merge', 'merge3') else \
        sigs.U(('x', 'y', 'z'), 2, stars=sigs.STARS2[:1])
    p1, r1 = annotate_params(rnd, rnd.choice(outers))
    p2, r2 = annotate_params(rnd, rnd.choice(inners))
    p3, r3 = annotate_params(rnd, rnd.choice(inners))
    if op in ('merge', 'merge3'):
        # aligned names so that parameters are really conciled
        base = rnd.choice(sigs.U(('a', 'b'), 2, stars=sigs.STARS2[:1]))
        p1, r1 = annotate_params(rnd, base)
        p2, r2 = annotate_params(rnd, base)
        p3, r3 = annotate_params(rnd, base)
    ipos = [p[0] for p in p2 if p[1] in (PO, PK)]
    n = rnd.randint(0, min(1, len(ipos)))
    cand = [p[0] for p in p2 if p[1] in (PK, KO) and p[0] not in ipos[:n]]
    names = tuple(rnd.sample(cand, rnd.randint(0, min(1, len(cand)))))
    if op == 'partial' and sigs.has_kind(p2, VK) and rnd.random() < 0.6:
        names = names + ('zq',)     # a keyword only the (possibly annotated) **kwargs takes
    pk1 = [p[0] for p in p1 if p[1] == PK]
    deco = None
    if pk1:
        deco = rnd.choice(['kwoargs(%r)' % pk1[-1], 'autokwoargs', 'posoargs(%r)' % pk1[0]])
    state = dict(n=n, names=names, deco=deco)
    rp = dict(workload='ann', case_seed=case_seed)
    w = {'operation': op, 'globals': cfg, 'f1': '(%s)%s' % (sigs.render(p1), ' -> ' + r1 if r1 else ''),
         'f2': '(%s)%s' % (sigs.render(p2), ' -> ' + r2 if r2 else ''), 'n': n, 'names': list(names)}
    if op == 'merge3':
        w['f3'] = '(%s)%s' % (sigs.render(p3), ' -> ' + r3 if r3 else '')
    ctx.evaluated()
    ctx.count('C11.cases')
    ctx.count('C11.op_' + op)
    results = {}
    for future in (False, True):
        tag = 'future' if future else 'eager'
        try:
            if op in ('discovery', 'discovery-method'):
                f2 = build(p2, r2, g2, future, 'callee')
                ova, ovk = sigs.star_name(p1, VA), sigs.star_name(p1, VK)
                if op == 'discovery':
                    gg = dict(g1, callee=f2)
                    f1 = build(p1, r1, gg, future, 'outer', body='return callee(*%s, **%s)' % (ova, ovk))
                    check_inputs(ctx, f2, p2, r2, g2, w, rp, tag + ' callee')
                    res = sigtools.signature(f1)
                else:
                    src = 'class C(object):\n    def callee(self, %s)%s: return None\n    def outer(self, %s)%s:\n        return self.callee(*%s, **%s)\n' % (
                        sigs.render(p2), ' -> ' + r2 if r2 else '', sigs.render(p1), ' -> ' + r1 if r1 else '', ova, ovk)
                    # one class: both methods share g1 (the different-globals case is the function form)
                    gm = sigs.compile_module(src, globs=dict(g1), future=future, tag='vann')
                    res = sigtools.signature(gm['C']().outer)
            elif op == 'modifier':
                if deco is None:
                    return
                f1 = build(p1, r1, dict(g1, modifiers=modifiers), future, 'decorated', prefix='@modifiers.%s\n' % deco,
                           body='return None')
                res = sigtools.signature(f1)
            else:
                f1 = build(p1, r1, g1, future, 'f1')
                f2 = build(p2, r2, g2, future, 'f2')
                f3 = build(p3, r3, g1, future, 'f3')
                check_inputs(ctx, f1, p1, r1, g1, w, rp, tag + ' f1')
                check_inputs(ctx, f2, p2, r2, g2, w, rp, tag + ' f2')
                res = run_op(op, [f1, f2, f3], state, S)
        except ValueError:
            results[tag] = None
            continue
        except Exception as e:
            V(ctx, 'operation-raises-%s' % type(e).__name__, '%s on %s functions raised %s: %s' % (op, tag, type(e).__name__, e), w, rp)
            return
        results[tag] = res
    re_, rf = results.get('eager'), results.get('future')
    if (re_ is None) != (rf is None):
        V(ctx, 'twins-differ-in-outcome', 'the operation %s on eager functions but %s on their postponed twins' % (
            'raises' if re_ is None else 'returns', 'raises' if rf is None else 'returns'), w, rp)
        return
    if re_ is None:
        ctx.count('C11.both_raise')
        return
    ctx.nontrivial((op, cfg, p1, r1, p2, r2, n, names, deco))
    ctx.sample('twins', lambda: dict(w, eager=show(re_), postponed=show(rf)), limit=4)
    try:
        ev = rf.evaluated()
    except Exception as e:
        V(ctx, 'evaluated-raises-%s' % type(e).__name__, 'evaluated() raised %s' % type(e).__name__, dict(w, postponed=show(rf)), rp)
        return
    ctx.count('C11.twins_compared')
    pe, pf = list(re_.parameters.values()), list(ev.parameters.values())
    if [(p.name, p.kind) for p in pe] != [(p.name, p.kind) for p in pf]:
        V(ctx, 'twins-differ-in-parameters', 'eager and postponed twins give different parameters',
          dict(w, eager=show(re_), postponed=show(rf)), rp)
        return
    # what the eager result says is the reference for every annotation
    diffs = []
    for a, b, raw in zip(pe, pf, rf.parameters.values()):
        sv = raw.upgraded_annotation.source_value()
        if a.annotation is not b.annotation or sv is not a.annotation:
            diffs.append((a.name, a.annotation, b.annotation))
    ret_e = re_.return_annotation
    ret_f = rf.upgraded_return_annotation.source_value()
    if ret_e is not ret_f or ev.return_annotation is not ret_e:
        diffs.append(('return', ret_e, ret_f))
    if diffs:
        contributors = {'f1': (p1, g1), 'f2': (p2, g2)}
        if op == 'merge3':
            contributors['f3'] = (p3, g1)
        if all(spelling_mechanism(name, contributors, re_) for name, x, y in diffs if name != 'return') and \
                all(name != 'return' for name, x, y in diffs):
            ctx.violation('C11', 'AnnotationTwins', SPELLING_MECH,
                          'postponed annotations are conciled by their spelling, not by the objects they denote',
                          dict(w, eager=show(re_), postponed_evaluated=show(ev), differing=[(n_, repr(x), repr(y)) for n_, x, y in diffs]), rp)
        else:
            V(ctx, 'twins-differ-in-annotations', 'evaluated() on postponed twins differs from the eager computation',
              dict(w, eager=show(re_), postponed_evaluated=show(ev), differing=[(n_, repr(x), repr(y)) for n_, x, y in diffs]), rp)


def spelling_mechanism(name, contributors, result):
    """Mechanism predicate of the open finding, evaluated on the result parameter
    `name`: its contributors are the input parameters conciled into it -- same
    name, same positional index, or the star parameters of the same kind --;
    at least two of them are annotated and whether their *spellings* are equal
    differs from whether the *objects* they denote are equal."""
    rp = result.parameters.get(name)
    if rp is None:
        return False
    kind = KIND_OF[rp.kind]
    respos = [p.name for p in result.parameters.values() if p.kind in (p.POSITIONAL_ONLY, p.POSITIONAL_OR_KEYWORD)]
    idx = respos.index(name) if name in respos else None
    cands = []
    for label, (params, globs) in contributors.items():
        pos = [p for p in params if p[1] in (PO, PK)]
        for p in params:
            same = p[0] == name
            if not same and idx is not None and idx < len(pos) and pos[idx] is p:
                same = True
            if not same and kind in (VA, VK) and p[1] == kind:
                same = True
            if same and p[3] is not None:
                cands.append((p[3], denoted(p[3], globs)))
    for i in range(len(cands)):
        for j in range(i + 1, len(cands)):
            if (cands[i][0] == cands[j][0]) != (cands[i][1] is cands[j][1]):
                return True
    return False


@core.guarded(lambda case_seed: dict(workload='annotate', case_seed=case_seed))
def check_annotate(ctx, case_seed):
    """values given to modifiers.annotate are reported verbatim."""
    import sigtools
    from sigtools import modifiers
    rnd = random.Random(case_seed)
    params = rnd.choice(sigs.U(('a', 'b', 'c'), 3, stars=sigs.STARS2[:1]))
    named = [p[0] for p in params]
    if not named:
        return
    chosen = rnd.sample(named, rnd.randint(1, min(2, len(named))))
    # (among the values: strings that read exactly like the source text of an annotation the parameter may already carry)
    # (... and values that compare and hash equal to one another without being the same object)
    values = {n: rnd.choice((T1, T2, 'a string', 17, ('tuple', 1), None.__class__, 'T', 'U', 'T', True, 1.0, EQ_A, EQ_B, None)) for n in chosen}
    use_ret = rnd.random() < 0.5
    ret = rnd.choice((T3, 'ret', 5, None, EQ_B, 1.0))
    future = rnd.random() < 0.5
    stacked = rnd.random() < 0.4 and any(p[1] == PK for p in params)
    already = set()
    if rnd.random() < 0.5:
        # the function is annotated already (T / U of its module); annotate replaces what it names and keeps the rest
        params = tuple((n_, k_, d_, (rnd.choice(('T', 'U')) if rnd.random() < 0.6 else a_)) for n_, k_, d_, a_ in params)
        already = {q[0] for q in params if q[3] is not None}
    own_ret = 'U' if already and rnd.random() < 0.6 else None      # ... a return annotation of its own, too
    ctx.evaluated()
    ctx.count('C11.annotate_cases')
    f = sigs.make_func(params, name='annotated', future=future, register=True, globs={'T': T1, 'U': T2}, ret=own_ret)
    rp = dict(workload='annotate', case_seed=case_seed)
    w = {'function': '(%s)' % sigs.render(params), 'annotate': {k: repr(v) for k, v in values.items()},
         'return': repr(ret) if use_ret else None, 'future': future, 'stacked_under_kwoargs': stacked}
    try:
        obj = f
        if stacked:
            obj = modifiers.kwoargs([p[0] for p in params if p[1] == PK][-1])(f)
        args = (ret,) if use_ret else ()
        obj = modifiers.annotate(*args, **values)(obj)
        s = sigtools.signature(obj)
        i = inspect.signature(obj)
    except Exception as e:
        V(ctx, 'annotate-raises-%s' % type(e).__name__, 'modifiers.annotate raised %s: %s' % (type(e).__name__, e), w, rp)
        return
    ctx.nontrivial(('annotate', params, tuple(sorted(chosen)), use_ret, future, stacked))
    for n, v in values.items():
        p = s.parameters[n]
        if p.annotation is not v or p.upgraded_annotation.source_value() is not v or i.parameters[n].annotation is not v:
            V(ctx, 'annotate-not-verbatim', 'the value given to annotate for %r is not reported verbatim' % n,
              dict(w, got=repr(p.annotation), source_value=repr(p.upgraded_annotation.source_value())), rp)
    if use_ret and (s.return_annotation is not ret or s.upgraded_return_annotation.source_value() is not ret):
        V(ctx, 'annotate-return-not-verbatim', 'the return value given to annotate is not reported verbatim', w, rp)
    if own_ret and not use_ret:
        try:
            kept = s.upgraded_return_annotation.source_value() is T2 and s.evaluated().return_annotation is T2
        except Exception:
            kept = False
        if not kept:
            V(ctx, 'annotate-disturbs-return-annotation', 'annotate was given no return value, yet the function\'s own return annotation no longer denotes its object',
              dict(w, own_return_annotation='U', got=repr(s.upgraded_return_annotation.source_value())), rp)
    for n in named:
        if n not in values and n not in already and s.parameters[n].annotation is not EMPTY:
            V(ctx, 'annotate-spurious', 'parameter %r got an annotation nobody gave' % n, w, rp)
        if n not in values and n in already:
            spelled = next(q[3] for q in params if q[0] == n)
            if s.parameters[n].upgraded_annotation.source_value() is not {'T': T1, 'U': T2}[spelled]:
                V(ctx, 'annotate-disturbs-other-annotation', 'an annotation annotate did not name no longer denotes its object', dict(w, parameter=n), rp)
    try:
        ev = s.evaluated()
        for n, v in values.items():
            if ev.parameters[n].annotation is not v:
                V(ctx, 'annotate-evaluated-differs', 'evaluated() changes a value given to annotate', w, rp)
    except Exception as e:
        V(ctx, 'annotate-evaluated-raises', 'evaluated() raised %s' % type(e).__name__, w, rp)


@core.guarded(lambda case_seed: dict(workload='unevaluable-neighbour', case_seed=case_seed))
def check_unevaluable_neighbour(ctx, case_seed):
    """A postponed annotation that cannot be evaluated at run time (a TYPE_CHECKING-only name) sits on a parameter
    that LEAVES the signature (bound by a partial, consumed by mask / forwards, the instance of a bound method):
    every annotation that is left still resolves, one by one, in its defining module."""
    import sigtools
    from sigtools import signatures as S
    rnd = random.Random(case_seed)
    rest = rnd.choice([q for q in sigs.U(('b', 'c'), 2, stars=sigs.STARS2[:1]) if not sigs.has_kind(q, PO)])
    rest, ret = annotate_params(rnd, rest, p=0.8)
    rest = tuple((n_, k_, d_, (a_ if a_ != "'Zed'" else 'T')) for n_, k_, d_, a_ in rest)
    globs = CONFIGS['shared'][0]
    how = rnd.choice(('partial', 'mask', 'forwards', 'bound-method', 'partial-of-bound-method'))
    first = ('self' if 'method' in how else 'a', PK, None, 'OnlyWhileTypeChecking')
    params = (first,) + tuple(rest)
    ctx.evaluated()
    ctx.count('C11.unevaluable_neighbour_cases')
    rp = dict(workload='unevaluable-neighbour', case_seed=case_seed)
    w = {'function': '(%s)%s' % (sigs.render(params), ' -> ' + ret if ret else ''), 'how_the_first_parameter_leaves': how, 'future': True}
    try:
        if 'method' in how:
            src = 'class C(object):\n    def m(%s)%s: return None\n' % (sigs.render(params), ' -> ' + ret if ret else '')
            inst = sigs.compile_module(src, globs=dict(globs), future=True, tag='vann')['C']()
            res = sigtools.signature(inst.m if how == 'bound-method' else functools.partial(inst.m))
        else:
            f = build(params, ret, globs, True, 'f')
            if how == 'partial':
                res = sigtools.signature(functools.partial(f, 0))
            elif how == 'mask':
                res = S.mask(sigtools.signature(f), 1)
            else:
                outer = build((('x', PK, None, None), ('args', VA, None, None), ('kwargs', VK, None, None)), None, globs, True, 'outer')
                res = S.forwards(sigtools.signature(outer), sigtools.signature(f), 1)
    except Exception as e:
        V(ctx, 'operation-raises-%s' % type(e).__name__, 'the operation raised %s: %s' % (type(e).__name__, e), w, rp)
        return
    ctx.nontrivial(('unevaluable-neighbour', how, rest, ret))
    for (n_, k_, d_, a_) in rest:
        if n_ not in res.parameters:
            continue
        try:
            got = res.parameters[n_].upgraded_annotation.source_value()
        except Exception as e:
            V(ctx, 'source-value-raises-because-of-another-annotation',
              'source_value() of %r raises %s although its own annotation resolves (another parameter, no longer in the signature, carries an unevaluable one)' % (n_, type(e).__name__),
              dict(w, result=show(res)), rp)
            return
        if got is not denoted(a_, globs):
            V(ctx, 'source-value-wrong-next-to-unevaluable', 'source_value() of %r is %r' % (n_, got), dict(w, result=show(res)), rp)
    try:
        res.evaluated()
    except Exception as e:
        V(ctx, 'evaluated-raises-because-of-another-annotation', 'evaluated() raises %s although every annotation left in the signature resolves' % type(e).__name__,
          dict(w, result=show(res)), rp)


@core.guarded(lambda case_seed: dict(workload='annotate-method', case_seed=case_seed))
def check_annotate_method(ctx, case_seed):
    """values given to modifiers.annotate on a *method* already wrapped by a modifier are
    reported verbatim by every view of it: the class attribute, a method object taken from an
    instance before annotate was applied and kept, one taken afterwards from the same and from a
    fresh instance, and a partial / embed over the kept one."""
    import functools
    import sigtools
    from sigtools import modifiers, signatures as S
    rnd = random.Random(case_seed)
    params = rnd.choice([p for p in sigs.U(('a', 'b', 'c'), 3, stars=sigs.STARS2[:1])
                         if sum(x[1] == PK for x in p) >= 2 and not any(x[1] == PO for x in p)])
    pk = [x[0] for x in params if x[1] == PK]
    future = rnd.random() < 0.5
    f = sigs.make_func((('self', PK, None, None),) + tuple(params), name='meth', future=future, register=True)
    deco_name = rnd.choice(('kwoargs', 'posoargs', 'autokwoargs', 'kwoargs+posoargs'))
    try:
        if deco_name == 'kwoargs':
            m = modifiers.kwoargs(pk[-1])(f)
        elif deco_name == 'posoargs':
            m = modifiers.posoargs(end=pk[0])(f)
        elif deco_name == 'autokwoargs':
            m = modifiers.autokwoargs(f)
        else:
            m = modifiers.kwoargs(pk[-1])(modifiers.posoargs(end=pk[0])(f))
    except ValueError:
        return
    if not isinstance(m, modifiers._PokTranslator):
        return
    cls = type('Holder', (object,), {'meth': m})
    inst = cls()
    held = [inst.meth] if rnd.random() < 0.8 else []
    if held and rnd.random() < 0.5:
        try:
            sigtools.signature(held[0])        # ... and somebody looked at it already
        except Exception:
            pass
    chosen = rnd.sample(pk + [x[0] for x in params if x[1] == KO], rnd.randint(1, 2))
    values = {n: rnd.choice((T1, T2, 'a string', 17, ('tuple', 1))) for n in chosen}
    use_ret = rnd.random() < 0.5
    ret = rnd.choice((T3, 'ret', 5))
    ctx.evaluated()
    ctx.count('C11.annotate_method_cases')
    rp = dict(workload='annotate-method', case_seed=case_seed)
    w = {'method': '(self, %s)' % sigs.render(params), 'modifier': deco_name, 'annotate': {k: repr(v) for k, v in values.items()},
         'return': repr(ret) if use_ret else None, 'future': future, 'held_before_annotate': bool(held)}
    modifiers.annotate(*((ret,) if use_ret else ()), **values)(cls.__dict__['meth'])
    ctx.nontrivial(('annotate-method', params, deco_name, tuple(sorted(chosen)), use_ret, future, bool(held)))
    views = [('class attribute', cls.meth), ('same instance, afterwards', inst.meth), ('fresh instance', cls().meth)]
    if held:
        views.append(('method object kept from before annotate', held[0]))
        views.append(('partial over the kept method object', functools.partial(held[0])))
    for label, o in views:
        for retr in (sigtools.signature, S.signature, inspect.signature):
            if retr is inspect.signature and isinstance(o, functools.partial):
                continue
            s = retr(o)
            up = retr is not inspect.signature
            for n, v in values.items():
                p = s.parameters[n]
                if p.annotation is not v or (up and p.upgraded_annotation.source_value() is not v):
                    V(ctx, 'annotate-not-verbatim-on-method-view',
                      'the value given to annotate for %r is not reported by a view of the method' % n,
                      dict(w, view=label, retrieval=retr.__module__ + '.signature', got=repr(p.annotation)), rp)
            if use_ret and s.return_annotation is not ret:
                V(ctx, 'annotate-return-not-verbatim-on-method-view',
                  'the return value given to annotate is not reported by a view of the method',
                  dict(w, view=label, retrieval=retr.__module__ + '.signature', got=repr(s.return_annotation)), rp)
            if up:
                ev = s.evaluated()
                for n, v in values.items():
                    if ev.parameters[n].annotation is not v:
                        V(ctx, 'annotate-evaluated-differs-on-method-view', 'evaluated() changes a value given to annotate',
                          dict(w, view=label), rp)


def run(ctx):
    rnd = ctx.rng('ann')
    n = {'quick': 12000, 'thorough': 1000000}[ctx.tier] // ctx.nshards
    for i in range(n):
        if ctx.out_of_time('annotation twins'):
            break
        check_case(ctx, rnd.getrandbits(48))
        if i % 5 == 0:
            check_annotate(ctx, rnd.getrandbits(48))
        if i % 10 == 1:
            check_annotate_method(ctx, rnd.getrandbits(48))
        if i % 10 == 2:
            check_unevaluable_neighbour(ctx, rnd.getrandbits(48))


def replay(ctx, rec):
    if rec['workload'] == 'annotate':
        check_annotate(ctx, rec['case_seed'])
    elif rec['workload'] == 'unevaluable-neighbour':
        check_unevaluable_neighbour(ctx, rec['case_seed'])
    elif rec['workload'] == 'annotate-method':
        check_annotate_method(ctx, rec['case_seed'])
    else:
        check_case(ctx, rec['case_seed'])

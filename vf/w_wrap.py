"""W-WRAP (C13): wrappers.decorator / wrapper_decorator / Combination.

Boundary monitor: the object built by sigtools vs. the hand-written
composition; reported signatures executed on every non-colliding shape."""
import inspect
import itertools
import types

from . import sigs, oracle
from . import core
from .sigs import PO, PK, VA, KO, VK
from .sigutil import bparams, show, show_params

CLASS_ACCESS_MECH = 'simplewrapped-call-self-collides-with-method-self'
_n = itertools.count()


def V(ctx, mech, what, w, rp):
    ctx.violation('C13', 'WrapperBoundary', mech, what, w, rp)


def outcome(fn, pos, kw):
    try:
        return ('ret', fn(*pos, **kw))
    except Exception as e:
        return ('raise', type(e).__name__)


def normalise(x, mapping):
    """Replace instances by stable labels so that return values can be compared."""
    if isinstance(x, tuple):
        return tuple(normalise(y, mapping) for y in x)
    if isinstance(x, dict):
        return {k: normalise(v, mapping) for k, v in x.items()}
    for obj, label in mapping:
        if x is obj:
            return label
    return x


WD_OPTIONS = {}
WD_NAMES = {}
NAMED_SECOND = [None]       # (set by check_stack for the innermost wrapper_decorator_args level)


def gen_decorator(rnd, idx, style):
    """Source of a wrapping function d<idx>(func, <own>, *args, **kwargs).
    own parameters: positional (like the repository's tests) or keyword-only."""
    name = 'd%d' % idx
    if style == 'wrapper_decorator_partial':
        # the wrapping callable is a functools.partial object: a generic wrapper specialised by a bound keyword
        # (which stays overridable: the partial advertises it as a keyword-only parameter with that default)
        own_name = 'note%d_' % idx
        src = ('def %s_base(func, *args, %s, **kwargs):\n    return (%r, %s, func(*args, **kwargs))\n'
               '%s = functools.partial(%s_base, %s=%d)\n') % (name, own_name, name, own_name, name, name, own_name, 70 + idx)
        return name, src, 0, [], [own_name], 'wrapper_decorator'
    if style == 'wrapper_decorator_opts':
        # wrapper_decorator(use_varargs=False): the wrapping function hands only **kwargs on, and says so
        src = 'def %s(func, *args, **kwargs):\n    return (%r, len(args), func(**kwargs))\n' % (name, name)
        WD_OPTIONS[name] = 'use_varargs=False'
        return name, src, 0, [], [], 'wrapper_decorator_opts'
    if style == 'wrapper_decorator_optk':
        # wrapper_decorator(use_varkwargs=False): the wrapping function hands only *args on, and says so
        src = 'def %s(func, *args, **kwargs):\n    return (%r, sorted(kwargs), func(*args))\n' % (name, name)
        WD_OPTIONS[name] = 'use_varkwargs=False'
        return name, src, 0, [], [], 'wrapper_decorator_opts'
    own = []
    if rnd.random() < 0.7:
        n_own = rnd.randint(0, 2)
        for j in range(n_own):
            own.append(('o%d%d' % (idx, j), rnd.choice(('pos', 'kwo')), rnd.random() < 0.5))
    pos_own = [(o[0], o[1], False) for o in own if o[1] == 'pos']   # positional own parameters are required
    kwo_own = [o for o in own if o[1] == 'kwo']
    params = ['func'] + [o[0] for o in pos_own] + ['*args'] + \
        [o[0] + ('=%d' % (idx * 10 + j) if o[2] else '') for j, o in enumerate(kwo_own)] + ['**kwargs']
    n, names = 0, ()
    call_args = '*args, **kwargs'
    if style == 'wrapper_decorator_args':
        # masks one leading positional of the wrapped function, like _deco_pos in the repository's tests
        call_args = '0, *args, **kwargs'
        n = 1
        if NAMED_SECOND[0]:
            # ... and passes a further parameter of the wrapped function by name
            call_args = '0, *args, %s=0, **kwargs' % NAMED_SECOND[0]
            names = (NAMED_SECOND[0],)
    body = 'return (%r, %s, func(%s))' % (name, ', '.join(o[0] for o in pos_own + kwo_own) or 'None', call_args)
    src = 'def %s(%s):\n    %s\n' % (name, ', '.join(params), body)
    WD_NAMES[name] = tuple(names)
    return name, src, n, [o[0] for o in pos_own], [o[0] for o in kwo_own], style


@core.guarded(lambda case_seed: dict(workload='wrap', case_seed=case_seed))
def check_stack(ctx, case_seed):
    import random
    import sigtools
    from sigtools import wrappers
    rnd = random.Random(case_seed)
    U = sigs.U(('x', 'y', 'z'), 2, stars=sigs.STARS2[:1])
    fparams = rnd.choice(U)
    depth = rnd.choice((1, 1, 2, 3))
    placement = rnd.choice(('function', 'function', 'method', 'staticmethod'))
    self_name = 'self' if rnd.random() < 0.5 else 'this'
    ctx.evaluated()
    ctx.count('C13.stacks')
    decos = []
    pos_f = [q for q in fparams if q[1] in (PO, PK)]
    NAMED_SECOND[0] = pos_f[1][0] if len(pos_f) >= 2 and pos_f[1][1] == PK and rnd.random() < 0.5 else None
    for i in range(depth):
        style = rnd.choice(('decorator', 'decorator', 'wrapper_decorator', 'wrapper_decorator_args', 'wrapper_decorator',
                            'decorator', 'wrapper_decorator_partial'))
        if style == 'wrapper_decorator_args' and (i != depth - 1 or (
                sigs.positional_capacity(fparams) == 0 and not sigs.has_kind(fparams, VA))):
            style = 'wrapper_decorator'
        if style == 'wrapper_decorator' and placement in ('function', 'staticmethod') and rnd.random() < 0.3:
            # the keyword options of wrapper_decorator: a wrapping function that hands on only one of its star
            # parameters and is declared so.  Only where the declaration can be honoured: no instance travels
            # positionally through the layers, **kwargs alone can feed every parameter of the decorated function
            # (none positional-only) / *args alone can (innermost layer, no required keyword-only parameter)
            if not sigs.has_kind(fparams, PO) and rnd.random() < 0.5:
                style = 'wrapper_decorator_opts'
            elif i == depth - 1 and not [q for q in fparams if q[1] == KO and q[2] is None] and not [
                    d for d in decos if d[5] == 'wrapper_decorator_opts']:
                style = 'wrapper_decorator_optk'
        if style in ('wrapper_decorator_opts', 'wrapper_decorator_optk'):
            ctx.count('C13.wrapper_decorator_keyword_options')
        prev = decos[-1] if decos else None
        if prev is not None and prev[5] != 'wrapper_decorator_opts' and style not in ('wrapper_decorator_opts', 'wrapper_decorator_optk') and not prev[3] and not prev[4] and not prev[2] and style != 'wrapper_decorator_args' and rnd.random() < 0.3:
            # the very same wrapping function once more, on the neighbouring level (@twice @twice def f): only
            # for wrapping functions without parameters of their own (a name cannot be advertised twice)
            decos.append(prev[:5] + (style if style != 'wrapper_decorator_args' else prev[5],))
            ctx.count('C13.same_wrapper_on_neighbouring_levels')
            continue
        decos.append(gen_decorator(rnd, i, style))
    style = '+'.join(d[5] for d in decos)
    fn = 'wf%d' % next(_n)
    fp = fparams
    if placement == 'method':
        fp = ((self_name, PO if sigs.has_kind(fparams, PO) else PK, None, None),) + fparams
    lines = ['from sigtools import wrappers, modifiers', 'import functools, inspect']
    # how the decorated function is "dressed" before the wrappers see it: update_wrapper copies its
    # __dict__, so a __signature__ / forger / hint it carries must not shadow the wrapper's own
    dress = rnd.choice(('plain', 'plain', 'plain', 'annotate', 'own-signature', 'kwoargs'))
    named = [p for p in fparams if p[1] in (PK, KO)]
    dress_line = None
    if dress == 'annotate' and named:
        dress_line = '@modifiers.annotate(%s=%d)' % (rnd.choice(named)[0], rnd.randint(1, 9))
    elif dress == 'own-signature':
        lines.append('def own_signature(f):\n    f.__signature__ = inspect.signature(f)\n    return f\n')
        dress_line = '@own_signature'
    elif dress == 'kwoargs' and [p for p in fparams if p[1] == KO]:
        # a no-op selection (already keyword-only): the function becomes a modifiers wrapper object
        dress_line = '@modifiers.kwoargs(%r)' % [p for p in fparams if p[1] == KO][0][0]
    else:
        dress = 'plain'
    value_eq = placement != 'function' and rnd.random() < 0.5
    for name, src, n, po, ko, st in decos:
        if src not in lines:
            lines.append(src)
    # decorator objects
    for i, (name, src, n, po, ko, st) in enumerate(decos):
        if st == 'wrapper_decorator_opts':
            lines.append('D%d = wrappers.wrapper_decorator(%s)(%s)' % (i, WD_OPTIONS[name], name))
        elif st == 'decorator':
            lines.append('D%d = wrappers.decorator(%s)' % (i, name))
        elif n:
            lines.append('D%d = wrappers.wrapper_decorator(%s)(%s)' % (i, ', '.join([str(n)] + [repr(x) for x in WD_NAMES.get(name, ())]), name))
        else:
            lines.append('D%d = wrappers.wrapper_decorator(%s)' % (i, name))
    fdef = 'def %s(%s): return (%r, dict(locals()))' % (fn, sigs.render(fp), fn)
    deco_lines = ['@D%d' % i for i in range(depth)]
    if dress_line:
        deco_lines.append(dress_line)
    peeked = False
    if placement == 'function' and depth >= 2 and rnd.random() < 0.35:
        # built level by level, and somebody (a registry, a doc tool) looks at every intermediate object
        # before the next wrapper goes on top
        peeked = True
        ctx.count('C13.stacks_inspected_between_levels')
        lines += deco_lines[depth - 1:] + [fdef]
        for i in reversed(range(depth - 1)):
            lines.append('_peek = (inspect.signature(%s), __import__("sigtools").signature(%s))' % (fn, fn))
            lines.append('%s = D%d(%s)' % (fn, i, fn))
        lines.append('plain = None')
        lines.append('def plain_%s(%s): return (%r, dict(locals()))' % (fn, sigs.render(fp), fn))
    elif placement == 'function' and not dress_line and rnd.random() < 0.2:
        # what gets decorated is a callable OBJECT whose __call__ (an ordinary or a static method) forwards to the function
        static = rnd.random() < 0.5
        ctx.count('C13.decorated_callable_objects')
        lines += [fdef.replace('def %s(' % fn, 'def target_%s(' % fn, 1), 'class Obj(object):']
        if static:
            lines += ['    @staticmethod', '    def __call__(*args, **kwargs): return target_%s(*args, **kwargs)' % fn]
        else:
            lines += ['    def __call__(self, *args, **kwargs): return target_%s(*args, **kwargs)' % fn]
        expr = 'Obj()'
        for i in reversed(range(depth)):
            expr = 'D%d(%s)' % (i, expr)
        lines += ['%s = %s' % (fn, expr), 'plain = None']
        lines.append('def plain_%s(%s): return (%r, dict(locals()))' % (fn, sigs.render(fp), fn))
        peeked = 'callable object with %s __call__' % ('a static' if static else 'an ordinary')
    elif placement == 'function':
        lines += deco_lines + [fdef, 'plain = None']
        lines.append('def plain_%s(%s): return (%r, dict(locals()))' % (fn, sigs.render(fp), fn))
    else:
        ind = '    '
        lines.append('class A(object):')
        if rnd.random() < 0.4:
            lines.append(ind + 'def __bool__(self): return False      # instances are falsy')
        if value_eq:
            # instances that compare (and hash) equal: anything keyed by the instance instead of its
            # identity hands one instance's bound wrapper to another
            lines += [ind + 'def __eq__(self, other): return isinstance(other, A)',
                      ind + 'def __hash__(self): return 7']
        if placement == 'staticmethod':
            lines += [ind + '@staticmethod'] + [ind + l for l in deco_lines] + [ind + fdef]
        else:
            lines += [ind + l for l in deco_lines] + [ind + fdef]
        lines.append('def plain_%s(%s): return (%r, dict(locals()))' % (fn, sigs.render(fp), fn))
    src = '\n'.join(lines) + '\n'
    rp = dict(workload='wrap', case_seed=case_seed, source=src)
    w = {'decorated': 'def f(%s)' % sigs.render(fp), 'placement': placement, 'style': style,
         'decorators': [d[1].splitlines()[0] for d in decos], 'dress': dress_line or 'plain',
         'instances_compare_equal': value_eq, 'inspected_between_levels': peeked}
    ctx.count('C13.dress.' + dress)
    try:
        g = sigs.compile_module(src, tag='vwrap')
    except Exception as e:
        V(ctx, 'decoration-raises-%s' % type(e).__name__, 'building the decorated object raised %s: %s' % (type(e).__name__, e), w, rp)
        return
    plain = g['plain_' + fn]
    mapping = []
    if placement == 'function':
        obj = g[fn]
        inner = plain
    else:
        # another instance is touched first (and what it handed out is kept alive)
        other = g['A']()
        keep = getattr(other, fn)
        inst = g['A']()
        mapping = [(inst, '<instance>'), (other, '<other instance>')]
        obj = getattr(inst, fn)
        ctx.count('C13.second_instance' + ('_value_equal' if value_eq else ''))
        inner = types.MethodType(plain, inst) if placement == 'method' else plain
    # hand-written composition: d0(d1(... plain ...))
    def compose(level):
        if level == depth:
            return inner
        nxt = compose(level + 1)
        wrapper = g[decos[level][0]]
        return lambda *a, **k: wrapper(nxt, *a, **k)
    ref = compose(0)
    visible = fparams
    own_names = [x for d in decos for x in d[3] + d[4]]
    all_params = [sigs.shape_key(visible)] + [tuple((n, PK, None, None) for n in own_names)]
    if rnd.random() < 0.3:
        # a retrieval that fails half-way (one call from sigtools into outside code raises) comes
        # first; its outcome is discarded, everything below must be unaffected by it
        from . import w_fault
        w['failed_retrieval_first'] = w_fault.failed_retrieval(
            lambda: (inspect.signature if rnd.random() < 0.5 else sigtools.signature)(obj), rnd)
        ctx.count('C13.failed_retrieval_first')
    try:
        s_sig = sigtools.signature(obj)
        i_sig = inspect.signature(obj)
    except Exception as e:
        V(ctx, 'retrieval-raises-%s' % type(e).__name__, 'retrieval raised %s on a decorated object: %s' % (type(e).__name__, e), w, rp)
        return
    ctx.nontrivial((sigs.shape_key(fp), depth, placement, style, tuple(d[1] for d in decos)))
    ctx.sample('decorated', lambda: dict(w, signature=show(s_sig)), limit=4)
    if bparams(s_sig) != bparams(i_sig):
        V(ctx, 'inspect-sees-another-signature', 'sigtools.signature and inspect.signature disagree on a decorated object',
          dict(w, sigtools=show(s_sig), inspect=str(i_sig)), rp)
    res = bparams(s_sig)
    sp = oracle.space_for(all_params + [res])
    nc = sp.noncolliding(res, all_params)
    acc = sp.acc(res)
    masked = sum(d[2] for d in decos)
    # behaviour: equal to the composition on every shape; accepted shapes must not raise TypeError
    for i, (n, kws) in enumerate(sp.shapes):
        pos = tuple(('p', j) for j in range(n))
        kw = {k: ('k', k) for k in kws}
        a = outcome(obj, pos, kw)
        b = outcome(ref, pos, kw)
        ctx.count('C13.calls_compared')
        a = normalise(a, mapping)
        b = normalise(b, mapping)
        if a != b:
            V(ctx, 'differs-from-composition', 'the decorated object does not behave like the hand-written composition',
              dict(w, shape=[n, sorted(kws)], got=repr(a)[:300], expected=repr(b)[:300]), rp)
            break
        if (acc >> i) & 1 and (nc >> i) & 1 and a == ('raise', 'TypeError'):
            V(ctx, 'accepted-call-raises-typeerror', 'a non-colliding call accepted by the reported signature raises TypeError',
              dict(w, signature=show(s_sig), shape=[n, sorted(kws)]), rp)
            break
    # wrappers.wrappers(obj): wrapping functions, outermost first
    try:
        got = list(wrappers.wrappers(obj))
    except Exception as e:
        V(ctx, 'wrappers-raises', 'wrappers.wrappers raised %s' % type(e).__name__, w, rp)
        got = None
    if got is not None:
        ctx.count('C13.wrappers_listed')
        want = [g[d[0]] for d in decos]
        if [id(x) for x in got] != [id(x) for x in want]:
            V(ctx, 'wrappers-order', 'wrappers.wrappers(obj) does not list the wrapping functions outermost first',
              dict(w, got=[getattr(x, '__name__', repr(x)) for x in got], expected=[d[0] for d in decos]), rp)
    # method binding removes exactly the first parameter
    if placement == 'method' and not masked and not any(d[3] for d in decos):
        # (with positional own parameters, or a masked leading positional, the first
        # parameter of the class-level signature is not the instance)
        ctx.count('C13.binding_checked')
        unbound = getattr(g['A'], fn)
        for lab, retr in (('sigtools.signature', sigtools.signature), ('inspect.signature', inspect.signature)):
            try:
                us = retr(unbound)
            except Exception as e:
                V(ctx, 'class-access-retrieval-raises-%s' % type(e).__name__, '%s raised %s on the decorated method accessed on its class' % (
                    lab, type(e).__name__), dict(w, exception=repr(e)), rp)
                continue
            bs = retr(obj)
            if bparams(us)[1:] != bparams(bs) or (bparams(us)[:1] and bparams(us)[0][0] != self_name):
                if simplewrapped_self_collision(unbound):
                    ctx.violation('C13', 'WrapperBoundary', CLASS_ACCESS_MECH,
                                  'accessed on the class, a wrappers.decorator method whose first parameter is named self loses the decorator parameters: binding does not remove exactly the first parameter',
                                  dict(w, on_class=str(us), on_instance=str(bs), retrieval=lab), rp)
                else:
                    V(ctx, 'binding-removes-more-than-first', 'binding as a method does not remove exactly the first parameter',
                      dict(w, on_class=str(us), on_instance=str(bs), retrieval=lab), rp)


def simplewrapped_self_collision(obj):
    """Mechanism predicate of the open finding: somewhere in the __wrapped__ chain
    there is a _SimpleWrapped (wrappers.decorator object) whose wrapped callable
    has a parameter named like the first parameter of _SimpleWrapped.__call__
    ('self'): embed sees the name twice and discovery falls back."""
    seen = 0
    while obj is not None and seen < 10:
        seen += 1
        if type(obj).__name__ == '_SimpleWrapped':
            first = next(iter(inspect.signature(type(obj).__call__).parameters), None)
            try:
                eff = set(inspect.signature(obj.__wrapped__).parameters)
            except (ValueError, TypeError):
                eff = set()
            if first in eff:
                return True
        obj = getattr(obj, '__wrapped__', None) if hasattr(obj, '_sigtools__wrappers') else None
    return False


COMB_INSPECT_MECH = 'combination-forger-not-visible-to-inspect'


# -------------------------------------------------------------- Combination

@core.guarded(lambda case_seed: dict(workload='combination', case_seed=case_seed))
def check_combination(ctx, case_seed):
    import random
    import sigtools
    from sigtools import wrappers
    rnd = random.Random(case_seed)
    ctx.evaluated()
    ctx.count('C13.combinations')
    k = rnd.randint(1, 3)
    pos_names = ['x', 'y']
    kwo_names = ['u', 'v']
    funcs = []
    lines = ['from sigtools import wrappers']
    plists = []
    for i in range(k):
        npos = rnd.randint(0, 2)
        ps = [('arg', rnd.choice((PO, PK)) if False else PK, None, None)]
        ndef = rnd.randint(0, npos)
        for j, n in enumerate(pos_names[:npos]):
            ps.append((n, PK, '1' if j >= npos - ndef else None, None))
        if rnd.random() < 0.6:
            ps.append(('args', VA, None, None))
        for n in kwo_names:
            if rnd.random() < 0.4:
                ps.append((n, KO, '1' if rnd.random() < 0.5 else None, None))
        if rnd.random() < 0.6:
            ps.append(('kwargs', VK, None, None))
        ps = tuple(ps)
        plists.append(ps)
        # "propagates its exceptions": now and then a member raises -- whatever it raises comes out unchanged
        # (StopIteration included: it must not be taken for the end of anything on the way)
        raises = rnd.choice((None, None, None, None, 'StopIteration', 'KeyError', 'ValueError', 'StopIteration'))
        if raises:
            ctx.count('C13.combination_member_raises')
            lines.append('def c%d(%s): raise %s((%r, arg))' % (i, sigs.render(ps), raises, 'c%d' % i))
        else:
            lines.append('def c%d(%s): return (%r, arg)' % (i, sigs.render(ps), 'c%d' % i))
    nest = k == 3 and rnd.random() < 0.5
    member_deco = None
    if nest:
        lines.append('C = wrappers.Combination(wrappers.Combination(c0, c1), c2)')
    elif k == 3 and rnd.random() < 0.5:
        # a member that is itself a Combination *wrapped by a decorator* (functools.wraps copies the
        # inner object's __dict__, its `functions` list included, onto the wrapper): it is one
        # member, not something to splice in
        member_deco = rnd.choice(('wraps', 'decorator'))
        if member_deco == 'wraps':
            lines += ['import functools', 'def mark(fn):', '    @functools.wraps(fn)',
                      '    def marked(arg, *args, **kwargs): return ("marked", fn(arg, *args, **kwargs))', '    return marked']
        else:
            lines += ['@wrappers.decorator', 'def mark(fn, arg, *args, **kwargs): return ("marked", fn(arg, *args, **kwargs))']
        lines.append('IN = wrappers.Combination(c0, c1)')
        lines.append('M = mark(IN)')
        lines.append('C = wrappers.Combination(M, c2)')
    else:
        lines.append('C = wrappers.Combination(%s)' % ', '.join('c%d' % i for i in range(k)))
    src = '\n'.join(lines) + '\n'
    rp = dict(workload='combination', case_seed=case_seed, source=src)
    w = {'functions': ['def c%d(%s)' % (i, sigs.render(p)) for i, p in enumerate(plists)], 'nested': nest}
    g = sigs.compile_module(src, tag='vcomb')
    C = g['C']
    fs = [g['c%d' % i] for i in range(k)]
    if member_deco:
        ctx.count('C13.combination_member_decorated')
        inner_two = fs[:2]
        def first_member(arg, *a, **kw):
            for f in inner_two:
                arg = f(arg, *a, **kw)
            return ('marked', arg)
        fs = [first_member, fs[2]]
    def ref(arg, *a, **kw):
        for f in fs:
            arg = f(arg, *a, **kw)
        return arg
    bl = [sigs.shape_key(p) for p in plists]
    consistent = oracle.strictly_role_consistent(bl)
    if member_deco:
        # the decorated member must have a signature of its own for the outer one to mean anything: when the inner
        # combination is incompatible its wrapper falls back to the plain (arg, *args, **kwargs), which is always admitted
        try:
            sigtools.signature(g['IN'])
        except ValueError:
            consistent = False
            ctx.count('C13.combination_member_without_signature')
    try:
        s_sig = sigtools.signature(C)
        i_sig = inspect.signature(C)
    except ValueError as e:
        # merge may find the functions incompatible: then no call at all may succeed
        ctx.count('C13.combination_incompatible')
        sp = oracle.space_for(bl)
        ok = sp.full
        for p in bl:
            ok &= sp.acc(p)
        if ok and oracle.name_aligned(bl) and k == 2:
            V(ctx, 'combination-incompatible-although-callable', 'Combination has no signature although its (name-aligned) functions share a call',
              dict(w, exception=repr(e), shape=sp.first(ok)), rp)
        return
    except Exception as e:
        V(ctx, 'combination-retrieval-raises-%s' % type(e).__name__, 'retrieval raised %s on a Combination' % type(e).__name__, dict(w, exception=repr(e)), rp)
        return
    ctx.nontrivial(('comb', tuple(bl), nest))
    ctx.sample('combination', lambda: dict(w, signature=show(s_sig)), limit=3)
    if bparams(s_sig) != bparams(i_sig):
        bare = bparams(inspect.signature(type(C).__call__))[1:]
        if bparams(i_sig) == bare and not hasattr(type(C), '__signature__'):
            ctx.violation('C13', 'WrapperBoundary', COMB_INSPECT_MECH,
                          'inspect.signature of a Combination reports the bare (arg, *args, **kwargs) of __call__',
                          dict(w, sigtools=show(s_sig), inspect=str(i_sig)), rp)
        else:
            V(ctx, 'combination-inspect-differs', 'sigtools.signature and inspect.signature disagree on a Combination',
              dict(w, sigtools=show(s_sig), inspect=str(i_sig)), rp)
    res = bparams(s_sig)
    sp = oracle.space_for(bl + [res])
    nc = sp.noncolliding(res, bl)
    acc = sp.acc(res)
    for i, (n, kws) in enumerate(sp.shapes):
        pos = tuple(('p', j) for j in range(n))
        kw = {kk: ('k', kk) for kk in kws}
        a = outcome(C, pos, kw)
        b = outcome(ref, pos, kw)
        ctx.count('C13.calls_compared')
        if a != b:
            V(ctx, 'combination-differs-from-chain', 'Combination does not behave like the chained calls',
              dict(w, shape=[n, sorted(kws)], got=repr(a)[:200], expected=repr(b)[:200]), rp)
            break
        if consistent and (acc >> i) & 1 and (nc >> i) & 1 and a == ('raise', 'TypeError'):
            V(ctx, 'combination-accepted-call-raises', 'a non-colliding call accepted by the Combination signature raises TypeError',
              dict(w, signature=show(s_sig), shape=[n, sorted(kws)]), rp)
            break
    if member_deco:
        if list(C.functions) != [g['M'], g['c2']]:
            V(ctx, 'combination-splices-decorated-member', 'a decorated Combination used as a member was spliced in instead of being kept as one member', w, rp)
    elif list(C.functions) != fs:
        V(ctx, 'combination-flattening', 'nested Combinations are not flattened in order', w, rp)


THREADS_SRC = '''
import threading, inspect
from sigtools import wrappers, specifiers, signatures, modifiers
entered = threading.Event()
release = threading.Event()
def inner(x, y): return (x, y)
@specifiers.forger_function
@modifiers.kwoargs('obj')
def slow_in_worker(obj):
    # a user-supplied forger somewhere down the chain; in the worker thread it takes its time
    if threading.current_thread().name == 'vf-worker':
        entered.set()
        release.wait(10)
    return signatures.signature(inner)
@wrappers.decorator
def deco(func, tag, *args, **kwargs): return (tag, func(*args, **kwargs))
@wrappers.wrapper_decorator
def wdeco(func, tag, *args, **kwargs): return (tag, func(*args, **kwargs))
@slow_in_worker()
def f1(*args, **kwargs): return inner(*args, **kwargs)
@slow_in_worker()
def f2(*args, **kwargs): return inner(*args, **kwargs)
w1 = deco(f1)
w2 = wdeco(f2)
'''


def check_while_another_thread_computes(ctx, prop='C13'):
    """inspect.signature / sigtools.signature of a decorated object give their usual answer also while
    another thread is in the middle of computing the signature of the very same object (parked inside
    a user-supplied forger down the chain).  Deterministic."""
    import threading
    import sigtools
    for name in ('w1', 'w2'):
        g = sigs.compile_module(THREADS_SRC, tag='vwrapthreads')
        obj = g[name]
        want = {'inspect': str(inspect.signature(obj)), 'sigtools': str(sigtools.signature(obj))}
        result = {}
        def other():
            try:
                result['a'] = str(inspect.signature(obj))
            except Exception as e:
                result['a'] = 'raised %s' % type(e).__name__
        t = threading.Thread(target=other, name='vf-worker')
        t.start()
        try:
            if not g['entered'].wait(10):
                # (the worker came back without going through the forger -- nothing to observe "meanwhile")
                ctx.count('%s.worker_did_not_park' % prop)
                t.join(20)
                if result.get('a') != want['inspect']:
                    ctx.violation(prop, 'WrapperBoundary', 'signature-differs-while-another-thread-computes', 'a second thread got another answer than the first',
                      {'object': name, 'usual': want['inspect'], 'got': result.get('a')}, dict(workload='wrap-threads'))
                continue
            for label, retr in (('inspect', inspect.signature), ('sigtools', sigtools.signature)):
                ctx.evaluated()
                ctx.count('%s.retrieved_while_another_thread_computes' % prop)
                try:
                    got = str(retr(obj))
                except Exception as e:
                    got = 'raised %s' % type(e).__name__
                ctx.nontrivial(('threads', name, label))
                if got != want[label]:
                    ctx.violation(prop, 'WrapperBoundary', 'signature-differs-while-another-thread-computes',
                      '%s.signature of a %s object differs from its usual answer while another thread is computing the signature of the same object' % (
                          label, 'wrappers.decorator' if name == 'w1' else 'wrapper_decorator'),
                      {'object': name, 'usual': want[label], 'now': got}, dict(workload='wrap-threads'))
        finally:
            g['release'].set()
            t.join(20)
        if result.get('a') != want['inspect']:
            ctx.violation(prop, 'WrapperBoundary', 'signature-differs-while-another-thread-computes', 'the parked thread itself got another answer',
              {'object': name, 'usual': want['inspect'], 'now': result.get('a')}, dict(workload='wrap-threads'))


def run(ctx):
    rnd = ctx.rng('wrap')
    if ctx.shard == 0:
        check_while_another_thread_computes(ctx)
    n = {'quick': 700, 'thorough': 100000}[ctx.tier] // ctx.nshards
    for i in range(n):
        if ctx.out_of_time('decorated stacks'):
            break
        check_stack(ctx, rnd.getrandbits(48))
        if i % 3 == 0:
            check_combination(ctx, rnd.getrandbits(48))


def replay(ctx, rec):
    if rec.get('workload') == 'wrap-threads':
        return check_while_another_thread_computes(ctx)
    if rec['workload'] == 'combination':
        check_combination(ctx, rec['case_seed'])
    else:
        check_stack(ctx, rec['case_seed'])

"""Monitor layer: pass-through wrappers on the real sigtools functions.

attach_all() replaces each attach point by a wrapper that (1) lets monitors
take a pre-snapshot, (2) calls the original, (3) hands the outcome to every
enabled monitor, (4) returns / re-raises unchanged.  Monitors never raise into
the code under test: they report to a Ctx (vf.core).  While monitors run, a
thread-local flag suppresses monitoring of the calls the oracles themselves
make into sigtools.
"""
import sys
import threading
import traceback

_tls = threading.local()


def _depth():
    return getattr(_tls, 'suppress', 0)


class suppressed(object):
    """Context: calls into sigtools made inside are not monitored."""
    def __enter__(self):
        _tls.suppress = _depth() + 1

    def __exit__(self, *exc):
        _tls.suppress = _depth() - 1


class Monitor(object):
    """Base class.  `points` = names of attach points it listens to."""
    points = ()
    wants_pre = False
    prop = None

    def __init__(self, ctx):
        self.ctx = ctx

    def pre(self, point, args, kwargs):
        return None

    def post(self, point, args, kwargs, ok, value, token):
        raise NotImplementedError


ACTIVE = []           # enabled monitors
ORIGINALS = {}        # point -> original function
WRAPPERS = {}
SWEEP = {}            # point -> list of 'module.name' rebound
NESTING = []          # stack of (point, subject) for the calls in progress (main thread only)
CALLS = {}            # point -> number of monitored calls
INTERNAL_ERRORS = []  # monitor bugs: make the run inconclusive, never a violation


def _make_wrapper(point, orig):
    def wrapper(*args, **kwargs):
        if _depth() or not ACTIVE:
            return orig(*args, **kwargs)
        CALLS[point] = CALLS.get(point, 0) + 1
        mons = [m for m in ACTIVE if point in m.points]
        tokens = None
        if mons:
            tokens = []
            for m in mons:
                tok = None
                if m.wants_pre:
                    _tls.suppress = _depth() + 1
                    try:
                        tok = m.pre(point, args, kwargs)
                    except Exception:
                        INTERNAL_ERRORS.append((point, type(m).__name__, traceback.format_exc()))
                    finally:
                        _tls.suppress = _depth() - 1
                tokens.append(tok)
        NESTING.append((point, args[0] if args else None))
        try:
            value = orig(*args, **kwargs)
            ok = True
        except BaseException as e:
            value = e
            ok = False
        finally:
            NESTING.pop()
        if mons:
            _tls.suppress = _depth() + 1
            try:
                for m, tok in zip(mons, tokens):
                    try:
                        m.post(point, args, kwargs, ok, value, tok)
                    except Exception:
                        INTERNAL_ERRORS.append((point, type(m).__name__, traceback.format_exc()))
            finally:
                _tls.suppress = _depth() - 1
        if ok:
            return value
        raise value
    wrapper.__name__ = getattr(orig, '__name__', point)
    wrapper.__qualname__ = getattr(orig, '__qualname__', point)
    wrapper.__doc__ = getattr(orig, '__doc__', None)
    wrapper.__module__ = getattr(orig, '__module__', None)
    wrapper.__wrapped_original__ = orig
    return wrapper


def attach_points():
    from sigtools import _signatures, _specifiers
    pts = {
        'merge': (_signatures, 'merge'),
        'embed': (_signatures, 'embed'),
        'mask': (_signatures, 'mask'),
        '_mask': (_signatures, '_mask'),
        'forwards': (_signatures, 'forwards'),
        'sort_params': (_signatures, 'sort_params'),
        'apply_params': (_signatures, 'apply_params'),
        'signature': (_signatures, 'signature'),
        'forged_signature': (_specifiers, 'forged_signature'),
    }
    return pts


def attach_all(extra=None):
    """Wrap every attach point and rebind every alias in sigtools' modules."""
    if ORIGINALS:
        return SWEEP
    pts = attach_points()
    if extra:
        pts.update(extra)
    for point, (mod, name) in pts.items():
        orig = getattr(mod, name)
        ORIGINALS[point] = orig
        WRAPPERS[point] = _make_wrapper(point, orig)
    by_id = {id(o): p for p, o in ORIGINALS.items()}
    for modname, mod in sorted(sys.modules.items()):
        if mod is None or not (modname == 'sigtools' or modname.startswith('sigtools.')):
            continue
        if modname.startswith('sigtools.tests'):
            continue
        for gname, gval in list(vars(mod).items()):
            point = by_id.get(id(gval))
            if point is not None and gval is ORIGINALS[point]:
                setattr(mod, gname, WRAPPERS[point])
                SWEEP.setdefault(point, []).append('%s.%s' % (modname, gname))
    return SWEEP


def original(point):
    return ORIGINALS[point]


def enable(*monitors):
    ACTIVE.extend(monitors)


def disable_all():
    del ACTIVE[:]


def sweep_report():
    return {p: sorted(v) for p, v in sorted(SWEEP.items())}

"""Parameter lists as plain data, rendering to `def` syntax, real functions, the universe.

A parameter is a tuple  (name, kind, default, ann)  with kind one of
'po' 'pk' 'va' 'ko' 'vk'; default is None (required) or a Python expression
(string); ann is None or a Python expression (string).  Parameter lists are
tuples of those, JSON-friendly (replay files store them as lists).
"""
import inspect
import itertools
import linecache
import __future__

PO, PK, VA, KO, VK = 'po', 'pk', 'va', 'ko', 'vk'
KIND_OF = {
    inspect.Parameter.POSITIONAL_ONLY: PO,
    inspect.Parameter.POSITIONAL_OR_KEYWORD: PK,
    inspect.Parameter.VAR_POSITIONAL: VA,
    inspect.Parameter.KEYWORD_ONLY: KO,
    inspect.Parameter.VAR_KEYWORD: VK,
}
INSPECT_KIND = {v: k for k, v in KIND_OF.items()}
FUTURE_FLAG = __future__.annotations.compiler_flag


def P(name, kind, default=None, ann=None):
    return (name, kind, default, ann)


def render(params, with_meta=True):
    """`def` parameter list for a tuple of parameters."""
    out = []
    pending_po = False
    star = False
    for name, kind, default, ann in params:
        if kind == PO:
            pending_po = True
        elif pending_po:
            out.append('/')
            pending_po = False
        if kind == KO and not star:
            out.append('*')
            star = True
        text = name
        if kind == VA:
            text = '*' + name
            star = True
        elif kind == VK:
            text = '**' + name
        if with_meta and ann is not None:
            text += ': ' + ann
        if default is not None:
            text += ('=' if not (with_meta and ann is not None) else ' = ') + (default if with_meta else '0')
        out.append(text)
    if pending_po:
        out.append('/')
    return ', '.join(out)


def shape_key(params):
    """Parameter list reduced to what argument binding depends on."""
    return tuple((n, k, None if d is None else '0', None) for n, k, d, a in params)


def of_signature(sig):
    """Binding-relevant parameter list of an inspect.Signature (values dropped)."""
    return tuple(
        (p.name, KIND_OF[p.kind], None if p.default is p.empty else '0', None)
        for p in sig.parameters.values())


def names_of(params):
    return [p[0] for p in params]


def positional_capacity(params):
    return sum(1 for p in params if p[1] in (PO, PK))


def has_kind(params, kind):
    return any(p[1] == kind for p in params)


def star_name(params, kind):
    for p in params:
        if p[1] == kind:
            return p[0]
    return None


def kw_passable(params):
    return frozenset(p[0] for p in params if p[1] in (PK, KO))


_counter = itertools.count()


def compile_module(source, globs=None, future=False, register=True, tag='vgen'):
    """exec `source` as a module; its text is registered in linecache so that
    inspect.getsource works (mtime None entries survive linecache.checkcache)."""
    filename = '<%s-%d>' % (tag, next(_counter))
    flags = FUTURE_FLAG if future else 0
    code = compile(source, filename, 'exec', flags, dont_inherit=True)
    if register:
        linecache.cache[filename] = (len(source), None, source.splitlines(True), filename)
    g = {'__name__': tag, '__builtins__': __builtins__}
    if globs:
        g.update(globs)
    exec(code, g)
    return g


def unregister(g_or_filename):
    linecache.cache.pop(g_or_filename, None)


def make_func(params, name='func', body='return None', globs=None, future=False,
              ret=None, register=False, prefix=''):
    src = '%sdef %s(%s)%s:\n    %s\n' % (
        prefix, name, render(params), (' -> ' + ret) if ret is not None else '', body)
    g = compile_module(src, globs, future=future, register=register)
    return g[name]


_stub_cache = {}


def stub(params):
    """A real do-nothing function with this parameter list (binding only)."""
    key = render(params, with_meta=False)
    f = _stub_cache.get(key)
    if f is None:
        g = {}
        exec('def func(%s): pass' % key, g)
        f = _stub_cache[key] = g['func']
        if len(_stub_cache) > 200000:
            _stub_cache.clear()
    return f


# ------------------------------------------------------------------ universe

def universe(names, maxn, star_names=(('args', 'kwargs'),), defaults=True,
             default_expr=lambda i: '1'):
    """Every valid parameter list with <= maxn named parameters drawn without
    repetition from `names`: every split po/pk/ko, with/without *args and
    **kwargs (for each pair of star names), defaults on every suffix of the
    positional parameters and every subset of the keyword-only ones."""
    res = []
    for n in range(maxn + 1):
        for combo in itertools.permutations(names, n):
            for npo in range(n + 1):
                for npk in range(n - npo + 1):
                    nko = n - npo - npk
                    npos = npo + npk
                    for dpos in (range(npos + 1) if defaults else (0,)):
                        for kd in (itertools.product((False, True), repeat=nko)
                                   if defaults else ((False,) * nko,)):
                            ps = []
                            for i, nm in enumerate(combo):
                                if i < npo:
                                    kind = PO
                                elif i < npos:
                                    kind = PK
                                else:
                                    kind = KO
                                if i < npos:
                                    d = default_expr(i) if i >= npos - dpos else None
                                else:
                                    d = default_expr(i) if kd[i - npos] else None
                                ps.append((nm, kind, d, None))
                            for va in (False, True):
                                for vk in (False, True):
                                    variants = star_names if (va or vk) else star_names[:1]
                                    for sa, sk in variants:
                                        if sa in combo or sk in combo:
                                            continue
                                        full = ps[:npos]
                                        if va:
                                            full.append((sa, VA, None, None))
                                        full += ps[npos:]
                                        if vk:
                                            full.append((sk, VK, None, None))
                                        res.append(tuple(full))
    return res


STARS2 = (('args', 'kwargs'), ('p', 'k'))

_ucache = {}


def U(names, maxn, stars=STARS2):
    key = (tuple(names), maxn, stars)
    r = _ucache.get(key)
    if r is None:
        r = _ucache[key] = universe(names, maxn, star_names=stars)
    return r


_strata = {}


def pick_stratified(rnd, names, maxn, stars=STARS2):
    """A parameter list of U(names, maxn) drawn by first choosing the *kind profile* (how many positional-only,
    positional-or-keyword, keyword-only parameters, which star parameters) uniformly and then a member of it:
    rare combinations (two positional-only followed by two positional-or-keyword, ...) come up as often as common ones."""
    key = (tuple(names), maxn, stars)
    groups = _strata.get(key)
    if groups is None:
        by = {}
        for p in U(names, maxn, stars):
            prof = (sum(1 for x in p if x[1] == PO), sum(1 for x in p if x[1] == PK), sum(1 for x in p if x[1] == KO),
                    has_kind(p, VA), has_kind(p, VK))
            by.setdefault(prof, []).append(p)
        groups = _strata[key] = [by[k] for k in sorted(by)]
    return rnd.choice(rnd.choice(groups))


def decorate_meta(params, rnd, ann_pool=('T', 'U', 'V'), default_base=10, p_ann=0.5):
    """Extended universe: distinct default values and annotations on a random subset."""
    out = []
    for i, (n, k, d, a) in enumerate(params):
        if d is not None:
            d = str(default_base * 10 + i) if rnd.random() < 0.7 else str(7)
        if rnd.random() < p_ann:
            a = rnd.choice(ann_pool)
        out.append((n, k, d, a))
    return tuple(out)


def to_json(params):
    return [list(p) for p in params]


def from_json(lst):
    return tuple(tuple(p) for p in lst)

#!/venv/bin/python
"""check.py --property Cnn --tier quick|thorough [--replay file]

Runs the workloads of one property against the sigtools in VERIF_REPO (default
/repo) with the property's monitors attached; three-valued verdict:
  held          exit 0
  violated      exit 1, lines  VIOLATION property=Cnn replay=<path>
  inconclusive  exit 2, line   INCONCLUSIVE property=Cnn reason=...
Known findings (known_findings.json, read-only) are reported as
  KNOWN-FINDING: property=Cnn <what>   and do not fail the run.
"""
import argparse
import importlib
import json
import os
import sys
import time
import traceback

HERE = os.path.dirname(os.path.abspath(__file__))
sys.path.insert(0, HERE)
sys.dont_write_bytecode = True

from vf import env  # noqa: E402


def main(argv=None):
    ap = argparse.ArgumentParser()
    ap.add_argument('--property', required=True)
    ap.add_argument('--tier', default=os.environ.get('VERIF_TIER') or 'quick',
                    choices=['quick', 'thorough'])
    ap.add_argument('--replay')
    ap.add_argument('--shard')
    ap.add_argument('--shard-out')
    ap.add_argument('--shards', type=int)
    ap.add_argument('--budget', type=float, help='seconds per shard (overrides the default)')
    args = ap.parse_args(argv)
    prop = args.property.upper()
    try:
        seed = int(os.environ.get('VERIF_SEED', '0') or 0)
    except ValueError:
        seed = 0
    try:
        env.bootstrap()
    except env.Inconclusive as e:
        print('INCONCLUSIVE property=%s reason=%s' % (prop, e))
        return 2
    except Exception:
        # the tree under test does not even import: nothing can be decided
        print('INCONCLUSIVE property=%s reason=sigtools failed to import: %s'
              % (prop, traceback.format_exc().strip().splitlines()[-1]))
        return 2
    from vf import core, monitor
    mod = importlib.import_module('vf.props.%s' % prop.lower())
    tier = args.tier
    budget = args.budget or float(os.environ.get('VERIF_BUDGET') or 0) or mod.BUDGET[tier]

    if args.replay:
        with open(args.replay) as f:
            rec = json.load(f)
        ctx = core.Ctx(prop, tier, seed, budget_s=budget)
        monitor.attach_all()
        mod.replay(ctx, rec['replay'])
        known, new = core.classify(ctx, prop)
        for k, (f, c, v) in known.items():
            print('KNOWN-FINDING: property=%s %s' % (prop, f['what']))
        for v in new:
            print('VIOLATION property=%s replay=%s' % (prop, args.replay))
            print('  ' + v['what'])
            print('  witness: ' + json.dumps(v['witness'], default=repr)[:2000])
        if not new:
            print('replay: no violation reproduced (%d monitor evaluations)' % ctx.evaluations)
        return 1 if new else 0

    if args.shard:
        i, n = args.shard.split('/')
        ctx = core.Ctx(prop, tier, seed, shard=int(i), nshards=int(n), budget_s=budget)
        monitor.attach_all()
        try:
            mod.run(ctx)
        except env.Inconclusive as e:
            ctx.inconclusive.append(str(e))
        except Exception:
            # a workload that dies half-way: what the monitors recorded until then still counts
            # (violations are violations), but the run can no longer be 'held'
            ctx.inconclusive.append('shard %s: workload raised %s' % (
                args.shard, traceback.format_exc().strip().splitlines()[-1][:300]))
        ctx.dump(args.shard_out)
        return 0

    nshards = args.shards or mod.SHARDS[tier]
    ctx = core.Ctx(prop, tier, seed, shard=0, nshards=1, budget_s=budget)
    failures = []
    calls = {}
    sweep = {}
    n_internal = 0
    internal = []
    if nshards == 1:
        monitor.attach_all()
        try:
            mod.run(ctx)
        except env.Inconclusive as e:
            failures.append(str(e))
        except Exception:
            failures.append('workload raised %s' % traceback.format_exc().strip().splitlines()[-1][:300])
        calls = dict(monitor.CALLS)
        sweep = monitor.sweep_report()
        n_internal = len(monitor.INTERNAL_ERRORS)
        internal = monitor.INTERNAL_ERRORS[:3]
    else:
        dumps, failures = core.run_shards(prop, tier, seed, nshards, timeout_s=budget * 6 + 300)
        ctx.nshards = 1
        for d in dumps:
            ctx.absorb(d)
            for k, v in d['calls'].items():
                calls[k] = calls.get(k, 0) + v
            sweep = d['sweep']
            n_internal += d['n_internal']
            internal.extend(d['internal'][:1])
        ctx.nshards = nshards

    known, new = core.classify(ctx, prop)
    reasons = list(failures) + list(ctx.inconclusive)
    if n_internal:
        reasons.append('%d internal monitor errors, first: %s' % (n_internal, internal[0][2][-600:]))
    for name, minimum in ctx.floors.items():
        if ctx.counters.get(name, 0) < minimum:
            reasons.append('deciding monitor %s saw %d events (< %d)'
                           % (name, ctx.counters.get(name, 0), minimum))
    if len(ctx.distinct) < 2 and not new:
        reasons.append('fewer than 2 distinct non-trivial cases observed')
    verdict = 'violated' if new else ('inconclusive' if reasons else 'held')
    for k, (f, c, v) in known.items():
        print('KNOWN-FINDING: property=%s %s  [observed %d times this run; e.g. %s]'
              % (prop, f['what'], c, json.dumps(v['witness'], default=repr)[:300]))
    if new:
        mechs = []
        for v in new:
            if v['mech'] not in mechs:
                mechs.append(v['mech'])
        for idx, mech in enumerate(mechs[:core.MAX_VIOLATION_LINES]):
            v = next(w for w in new if w['mech'] == mech)
            path = core.write_replay(v, idx)
            print('VIOLATION property=%s replay=%s' % (prop, path))
            print('  [%s x%d] %s' % (mech, ctx.violation_mechs[(prop, mech)], v['what']))
            print('  witness: ' + json.dumps(v['witness'], default=repr)[:1500])
    core.write_evidence(ctx, prop, mod.LEVEL, mod.RULE, mod.ASSUMPTIONS, len(new), known, verdict,
                        calls=calls, sweep=sweep)
    print('SUMMARY verdict=%s property=%s tier=%s seed=%d evaluations=%d distinct_nontrivial=%d wall=%.1fs'
          % (verdict, prop, tier, seed, ctx.evaluations, len(ctx.distinct), time.time() - ctx.t0))
    if new:
        return 1
    if reasons:
        print('INCONCLUSIVE property=%s reason=%s' % (prop, '; '.join(reasons)[:1500]))
        return 2
    return 0


if __name__ == '__main__':
    sys.exit(main())
